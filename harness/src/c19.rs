//! C19: the real LLKParser / LRParser on arbitrary text (random bytes rendered as text, letter soup, heavily
//! mutated and very long inputs), recovery on and off, each run under a watchdog.
use crate::{alpha, c01, c03, c07, c20, gram::*, rng::Rng, rt, Args};
use parol_runtime::parser::LLKParser;
use parol_runtime::LRParser;
use std::sync::mpsc;
use std::time::Duration;

const WATCHDOG: Duration = Duration::from_secs(30);

/// Significant token types of a text as the real TokenStream delivers them (skip tokens 1..=4 removed by the stream).
fn token_types(text: &str) -> Option<Vec<u16>> {
    std::panic::catch_unwind(|| {
        let mut ts = alpha::stream(text, 1, &[]);
        let mut v = vec![];
        loop {
            let _ = ts.take_skip_tokens();
            match ts.lookahead_token_type(0) { Ok(0) => break, Ok(_) => {}, Err(_) => break }
            let _ = ts.take_skip_tokens();
            match ts.consume() { Ok(t) => v.push(t.token_type), Err(_) => break }
            if v.len() > 100_000 { break; }
        }
        v
    }).ok()
}

fn random_text(rng: &mut Rng, terms: &[u16]) -> String {
    let n = match rng.below(6) { 0 => rng.range(0, 3), 1 => rng.range(100, 400), _ => rng.range(1, 40) };
    let mut bytes: Vec<u8> = vec![];
    let style = rng.below(4);
    for _ in 0..n {
        match style {
            // arbitrary bytes (rendered lossily as text)
            0 => bytes.push(rng.below(256) as u8),
            // letter soup over the whole alphabet with blanks
            1 => { bytes.push(b'a' + rng.below(26) as u8); if rng.chance(1, 2) { bytes.push(b' '); } }
            // mostly the grammar's own terminals, some junk, comment starts, newlines
            2 => match rng.below(12) {
                0 => bytes.extend_from_slice(b"/*"), 1 => bytes.extend_from_slice(b"*/ "), 2 => bytes.extend_from_slice(b"// x\n"),
                3 => bytes.push(b'\n'), 4 => bytes.extend_from_slice("é".as_bytes()), 5 => bytes.push(b'#'),
                _ => { if !terms.is_empty() { bytes.push(alpha::letter(terms[rng.below(terms.len())]) as u8); } bytes.push(b' '); }
            },
            // one token repeated (drives the 100-error limit)
            _ => { bytes.push(if terms.is_empty() { b'z' } else { alpha::letter(terms[0]) as u8 }); bytes.push(b' '); }
        }
    }
    String::from_utf8_lossy(&bytes).into_owned()
}

fn heavy_mutant(rng: &mut Rng, s: &[u16], nterm: usize) -> Vec<u16> {
    let mut v = s.to_vec();
    for _ in 0..rng.range(2, 8) { v = mutate(rng, &v, nterm); }
    if rng.chance(1, 4) { let w = v.clone(); for _ in 0..rng.range(1, 6) { v.extend(w.iter().cloned()); } }
    v.retain(|t| *t >= 5 && *t <= 30);
    v
}

/// Run f under the watchdog; on a hang print what we have and leave the process (the thread cannot be stopped).
fn guarded<F: FnOnce() -> String + Send + 'static>(head: &str, sofar: &[String], tail: &str, hang_run: String, f: F) -> String {
    let (tx, rx) = mpsc::channel();
    std::thread::Builder::new().stack_size(64 << 20).spawn(move || { let _ = tx.send(f()); }).unwrap();
    match rx.recv_timeout(WATCHDOG) {
        Ok(s) => s,
        Err(mpsc::RecvTimeoutError::Disconnected) => hang_run.replace("hang", "panic"),
        Err(mpsc::RecvTimeoutError::Timeout) => {
            println!("{}{} {}{}", head, sofar.join(" "), hang_run, tail);
            use std::io::Write; let _ = std::io::stdout().flush();
            std::process::exit(0);
        }
    }
}

fn ll_run(p: &'static c01::Parts, types: Vec<u16>, text: String, recovery: bool) -> String {
    let r = std::panic::catch_unwind(|| {
        let mut parser = LLKParser::new(p.start, p.automata, p.productions, rt::terminal_names(), p.names);
        if !recovery { parser.disable_recovery(); }
        let mut rec = rt::Recorder::new(p.names);
        let mut acts = rt::Actions::default();
        let res = parser.parse_into(&mut rec, alpha::stream(&text, p.k, &[]), &mut acts);
        (res.map_err(|e| rt::err_kind(&e)), acts.calls.len())
    });
    let head = format!("{} {}", crate::sx::nums(&types), recovery as u8);
    match r {
        Err(_) => format!("({} panic)", head),
        Ok((Ok(()), n)) => format!("({} ok {})", head, n),
        Ok((Err(k), n)) => format!("({} (err {}) {})", head, k, n),
    }
}

fn lr_run(b: &'static c03::Built, types: Vec<u16>, text: String) -> String {
    let (start, table, prods, names) = b.parser_parts;
    let r = std::panic::catch_unwind(|| {
        let mut parser = LRParser::new(start, table, prods, rt::terminal_names(), names);
        parser.set_max_parsing_depth(100_000);
        let mut rec = rt::Recorder::new(names);
        let mut acts = rt::Actions::default();
        let res = parser.parse_into(&mut rec, alpha::stream(&text, 1, &[]), &mut acts);
        (res.map_err(|e| rt::err_kind(&e)), acts.calls.len())
    });
    let head = format!("{} 1", crate::sx::nums(&types));
    match r {
        Err(_) => format!("({} panic)", head),
        Ok((Ok(()), n)) => format!("({} ok {})", head, n),
        Ok((Err(k), n)) => format!("({} (err {}) {})", head, k, n),
    }
}

fn texts(rng: &mut Rng, g2: &G, terms: &[u16], thorough: bool) -> Vec<(Vec<u16>, String)> {
    let nterm = terms.len().max(1);
    let mut out: Vec<(Vec<u16>, String)> = vec![];
    for _ in 0..(if thorough { 10 } else { 5 }) {
        if let Some(s) = random_sentence(rng, g2, 16) {
            if s.len() <= 40 {
                let m = heavy_mutant(rng, &s, nterm);
                out.push((m.clone(), alpha::render(&m)));
                let m1 = mutate(rng, &s, nterm);
                if m1.iter().all(|t| *t >= 5 && *t <= 30) { out.push((m1.clone(), c20::render_commented(rng, &m1))); }
                out.push((s.clone(), alpha::render(&s)));
            }
        }
    }
    for _ in 0..(if thorough { 12 } else { 6 }) {
        let t = random_text(rng, terms);
        if let Some(types) = token_types(&t) { out.push((types, t)); }
    }
    out
}

pub fn run(a: &Args) {
    let mut rng = Rng::new(a.seed ^ ((a.shard as u64) << 32) ^ 0xC19);
    for i in 0..a.n {
        if i % 2 == 0 {
            let (gsx, built) = if i % 4 == 2 {
                let eg = c20::ll_ebnf(&mut rng);
                let text = eg.par(false);
                (eg.sx(), std::panic::catch_unwind(|| -> Result<c07::LlBuilt, String> {
                    let gc = parol::obtain_grammar_config_from_string(&text, false).map_err(|_| "rejected-by-checks".to_string())?;
                    if gc.cfg.pr.len() > 40 { return Err("too-large".to_string()); }
                    c07::build_ll_transformed(&gc.cfg, 2)
                }).unwrap_or_else(|_| Err("panic".to_string())))
            } else {
                let g = c07::ll_grammar(&mut rng, i / 2);
                let maxk = if i % 10 == 0 { 5 } else { rng.range(1, 3) };
                (g.sx(), c07::build_ll(&g, maxk))
            };
            match built {
                Err(why) => println!("(llt {} ({}))", gsx, why.split(' ').next().unwrap()),
                Ok(b) => {
                    let p: &'static c01::Parts = Box::leak(Box::new(c01::parts(&b)));
                    let mut terms: Vec<u16> = b.g2.prods.iter().flat_map(|(_, r)| r.iter()).filter_map(|y| if let Sy::T(t) = y { Some(*t) } else { None }).collect();
                    terms.sort(); terms.dedup();
                    let head = format!("(llt {} (built {} (", gsx, p.tables_sx);
                    let mut runs: Vec<String> = vec![];
                    for (types, text) in texts(&mut rng, &b.g2, &terms, a.thorough) {
                        // what the stream really delivers (comments etc. removed) is the model's input
                        let types = token_types(&text).unwrap_or(types);
                        for rc in [true, false] {
                            let (ty, tx) = (types.clone(), text.clone());
                            let hang = format!("({} {} hang)", crate::sx::nums(&types), rc as u8);
                            let r = guarded(&head, &runs, ")))", hang, move || ll_run(p, ty, tx, rc));
                            runs.push(r);
                        }
                    }
                    println!("{}{})))", head, runs.join(" "));
                }
            }
        } else {
            let g = c03::lr_grammar(&mut rng, i % 8 == 1);
            match c03::build(&g) {
                Err(why) => println!("(lrt {} ({}))", g.sx(), why),
                Ok(b) => {
                    let b: &'static c03::Built = Box::leak(Box::new(b));
                    let mut terms: Vec<u16> = b.g2.prods.iter().flat_map(|(_, r)| r.iter()).filter_map(|y| if let Sy::T(t) = y { Some(*t) } else { None }).collect();
                    terms.sort(); terms.dedup();
                    let head = format!("(lrt {} (built {} {} {} (", g.sx(), b.g2.sx(), b.table_sx, b.nconf);
                    let mut runs: Vec<String> = vec![];
                    let mut all = texts(&mut rng, &g, &terms, a.thorough);
                    // all short strings over the grammar's terminals: an endless reduction cycle of a table with resolved
                    // conflicts is reached by some short input if it is reachable at all
                    for s in c03::inputs(&mut rng, &g, false) { if s.len() <= 5 { let t = alpha::render(&s); all.push((s, t)); } }
                    for (types, text) in all {
                        let types = token_types(&text).unwrap_or(types);
                        let (ty, tx) = (types.clone(), text.clone());
                        let hang = format!("({} 1 hang)", crate::sx::nums(&types));
                        let r = guarded(&head, &runs, ")))", hang, move || lr_run(b, ty, tx));
                        runs.push(r);
                    }
                    println!("{}{})))", head, runs.join(" "));
                }
            }
        }
    }
}
