(** * Faithful executable model of the LALR(1) runtime parser
      [LRParser::parse_into] / [call_action]  (crates/parol_runtime/src/lr_parser/parser_types.rs),
      [ParseTreeStack::pop_n]                  (crates/parol_runtime/src/parser_common/parse_tree_stack.rs),
      [LRParseTable::action] / [goto], [LR1State::action_index] / [goto_state].

    What is modelled
    - The data the generated parser passes to [LRParser::new]: start symbol index, the parse
      table ([actions] array, per state an action list keyed by terminal and a goto list keyed by
      non-terminal, exactly as the Rust [LR1State] has them: association LISTS searched with
      [find], first match wins), the [LRProduction] array ([lhs], [len]) and the lengths of the
      [terminal_names] / [non_terminal_names] arrays (they are indexed by the parser).
    - The input is the list of SIGNIFICANT token types in the order the token stream delivers
      them.  Skip tokens are removed: [handle_additional_tokens] pushes them on the parse tree
      stack only, [pop_n] does not count them and [call_action] filters them out of the
      arguments.  After the last token the stream delivers EOI (terminal 0) for ever
      ([TokenStream::read_tokens]: "Filling with EOI at end of input"), so the lookahead of an
      empty rest is 0 and consuming it leaves the rest empty.  A real token stream never yields
      a token of type 0 before the end; a list that contains 0 is outside the domain of the
      model (the parser cannot tell it from the end of input).
    - Every [self.states[i]], [self.actions[a]], [self.productions[p]],
      [self.non_terminal_names[..]], [self.terminal_names[..]] and [unwrap] that the loop can
      reach is an explicit [Panic site]; every [ParserError::InternalError] return is an
      [InternalErr site]; a syntax error is [Rejected].
    - Options are at their defaults: [max_parsing_depth = None], [trim_parse_tree = false].
      User actions and [on_comment] never fail.  [trace!] arguments are not evaluated.
    - Parse tree: the Rust node is [NonTerminal(name_of(productions[p].lhs), children)]; the model
      node is [Node (mkProd productions[p].lhs (map root_sym children)) children], i.e. it is
      labelled with what the Rust node shows (left-hand side and the roots of the children) and
      with nothing taken from a grammar.  That this label IS production [p] of the grammar is a
      theorem about validated tables (Tables/LRValidate.v), not an assumption of the model.
    - On [Accept] the Rust code looks up the FIRST production whose [lhs] is the start symbol,
      calls [call_action] for it (which pops [len] trees and pushes the root) and leaves the
      loop; afterwards everything that is on the parse tree stack is put under a synthetic root
      [NonTerminal("", ..)].  The model returns that list of trees (bottom of the stack first).

    Panic sites
      1  [self.states[state]] in [LRParseTable::action] (current state out of range)
      2  [self.actions[a]] in [LRParseTable::action]
      3  [LRParseStack::current_state] at the loop head ([unwrap] on an empty stack)
      4  [self.terminal_names[terminal_index]] in [handle_parse_error]
      5  [self.terminal_names[*t]] over the viable terminals in [handle_parse_error]
      6  [self.productions[prod_num]] in [call_action]
      7  [debug_assert_eq!(n, arguments.len())] in [call_action] (fewer than [n] trees on the
         stack; a debug-build panic - a release build goes on with fewer children)
      8  [self.non_terminal_names[self.productions[prod_num].lhs]] in [call_action]
      9  [LRParseStack::current_state] after popping [n] states ([unwrap] on an empty stack)
      10 [self.states[state]] in [LRParseTable::goto]
    InternalErr sites
      1  "Attempted to pop from an empty stack"
      2  "No goto for non-terminal .. in state .."
      3  "No production found for start symbol .." *)
From Coq Require Import List NArith Bool Lia.
From Parol Require Import Grammar.Cfg.
Import ListNotations.
Local Open Scope N_scope.

(** ** Table data *)
Inductive lr_action :=
| Shift (next : N)               (* LRAction::Shift(state) *)
| Reduce (nt : N) (p : N)        (* LRAction::Reduce(non-terminal index, production index) *)
| Accept.

Record lr_state := mkLRState {
  st_actions : list (N * N);     (* (terminal index, index into lr_actions) *)
  st_gotos : list (N * N)        (* (non-terminal index, state) *)
}.

Record lr_production := mkLRProd { lp_lhs : N; lp_len : nat }.

Record lr_table := mkLRTable {
  lr_actions : list lr_action;   (* LRParseTable.actions *)
  lr_states : list lr_state;     (* LRParseTable.states *)
  lr_prods : list lr_production; (* LRParser.productions *)
  lr_start : N;                  (* LRParser.start_symbol_index *)
  lr_nterm : N;                  (* terminal_names.len() *)
  lr_nnt : N                     (* non_terminal_names.len() *)
}.

(** ** Results *)
Inductive lr_result :=
| Accepted (reds : list N) (forest : list tree)
    (* Ok(()): production numbers in the order [call_semantic_action_for_production_number] was
       called (the start production, called on Accept, is the last one); the final parse tree
       stack, bottom first (the children of the synthetic root) *)
| Rejected                       (* Err(SyntaxErrors) from handle_parse_error *)
| OutOfFuel
| InternalErr (site : nat)       (* Err(ParserError::InternalError) *)
| Panic (site : nat).

Record lr_conf := mkConf {
  c_states : list N;             (* parser_stack.stack, top first *)
  c_trees : list tree;           (* parse_tree_stack.stack, top first *)
  c_input : list N;              (* significant token types not yet consumed *)
  c_reds : list N                (* production numbers passed to the user actions, latest first *)
}.

Inductive lr_step_result := Continue (c : lr_conf) | Done (r : lr_result).

(** [iter().find(|(k, _)| *k == key).map(|(_, v)| *v)] *)
Fixpoint assoc (k : N) (l : list (N * N)) : option N :=
  match l with
  | [] => None
  | (k', v) :: l' => if N.eqb k' k then Some v else assoc k l'
  end.

(** [self.productions.iter().position(|p| p.lhs == self.start_symbol_index)] *)
Fixpoint position_from (i : N) (a : N) (l : list lr_production) : option N :=
  match l with
  | [] => None
  | p :: l' => if N.eqb (lp_lhs p) a then Some i else position_from (N.succ i) a l'
  end.

Definition find_start_prod (tb : lr_table) : option N := position_from 0 (lr_start tb) (lr_prods tb).

(** [call_action]: result is a panic site or (n, new parse tree stack). *)
Definition call_action (tb : lr_table) (p : N) (ts : list tree) : nat + (nat * list tree) :=
  match nth_error (lr_prods tb) (N.to_nat p) with
  | None => inl 6%nat
  | Some lp =>
      let n := lp_len lp in
      let popped := firstn n ts in                 (* pop_n pops at most what is there *)
      if negb (Nat.eqb (length popped) n) then inl 7%nat
      else if negb (N.ltb (lp_lhs lp) (lr_nnt tb)) then inl 8%nat
      else
        let children := rev popped in
        inr (n, Node (mkProd (lp_lhs lp) (map root_sym children)) children :: skipn n ts)
  end.

Definition lookahead (input : list N) : N := match input with [] => 0 | t :: _ => t end.

(** One iteration of the [loop] in [parse_into]. *)
Definition lr_step (tb : lr_table) (c : lr_conf) : lr_step_result :=
  let la := lookahead (c_input c) in
  match c_states c with
  | [] => Done (Panic 3)
  | cur :: _ =>
    match nth_error (lr_states tb) (N.to_nat cur) with
    | None => Done (Panic 1)
    | Some st =>
      match assoc la (st_actions st) with
      | None =>
          (* handle_parse_error *)
          if negb (N.ltb la (lr_nterm tb)) then Done (Panic 4)
          else if negb (forallb (fun e => N.ltb (fst e) (lr_nterm tb)) (st_actions st))
          then Done (Panic 5)
          else Done Rejected
      | Some ai =>
        match nth_error (lr_actions tb) (N.to_nat ai) with
        | None => Done (Panic 2)
        | Some (Shift next) =>
            Continue (mkConf (next :: c_states c) (Leaf la :: c_trees c) (tl (c_input c)) (c_reds c))
        | Some (Reduce nt p) =>
            match call_action tb p (c_trees c) with
            | inl site => Done (Panic site)
            | inr (n, ts') =>
                if Nat.ltb (length (c_states c)) n then Done (InternalErr 1)
                else
                  match skipn n (c_states c) with
                  | [] => Done (Panic 9)
                  | s :: rest =>
                    match nth_error (lr_states tb) (N.to_nat s) with
                    | None => Done (Panic 10)
                    | Some st' =>
                      match assoc nt (st_gotos st') with
                      | None => Done (InternalErr 2)
                      | Some gt => Continue (mkConf (gt :: s :: rest) ts' (c_input c) (p :: c_reds c))
                      end
                    end
                  end
            end
        | Some Accept =>
            match find_start_prod tb with
            | None => Done (InternalErr 3)
            | Some p0 =>
                match call_action tb p0 (c_trees c) with
                | inl site => Done (Panic site)
                | inr (_, ts') => Done (Accepted (rev (p0 :: c_reds c)) (rev ts'))
                end
            end
        end
      end
    end
  end.

Fixpoint lr_loop (fuel : nat) (tb : lr_table) (c : lr_conf) : lr_result :=
  match fuel with
  | O => OutOfFuel
  | S fuel' =>
      match lr_step tb c with
      | Done r => r
      | Continue c' => lr_loop fuel' tb c'
      end
  end.

(** [LRParseStack::new()] is [vec![0]]; the parse tree stack starts empty. *)
Definition lr_init (toks : list N) : lr_conf := mkConf [0] [] toks [].

(** [fuel] bounds the number of loop iterations (shift + reduce steps + 1 for Accept).  A table
    with a cycle of empty reductions loops for ever in Rust; the model answers [OutOfFuel]. *)
Definition lr_run (fuel : nat) (tb : lr_table) (toks : list N) : lr_result :=
  lr_loop fuel tb (lr_init toks).

(** ** Small facts used by the validator proofs *)
Lemma assoc_In k l v : assoc k l = Some v -> In (k, v) l.
Proof.
  induction l as [|[k' v'] l IH]; simpl; intros H; [discriminate|].
  destruct (N.eqb_spec k' k) as [->|_].
  - inversion H; subst. left. reflexivity.
  - right. apply IH. exact H.
Qed.

Lemma lr_loop_inv (P : lr_conf -> Prop) tb :
  (forall c c', P c -> lr_step tb c = Continue c' -> P c') ->
  forall fuel c r, P c -> lr_loop fuel tb c = r -> r <> OutOfFuel ->
  exists c', P c' /\ lr_step tb c' = Done r.
Proof.
  intros Hstep fuel. induction fuel as [|fuel IH]; intros c r HP H Hne; simpl in H.
  - congruence.
  - destruct (lr_step tb c) as [c'|r'] eqn:E.
    + apply (IH c' r (Hstep c c' HP E) H Hne).
    + subst r'. exists c. split; [exact HP|exact E].
Qed.
