(** Property C28 — pinned statements (tools/pin.py); proofs in Ls/Edits.v. *)
From Coq Require Import List NArith.
From Parol Require Import Ls.Edits.
Import ListNotations.

Theorem C28_apply_edits_length :
  forall (txt : text) (es : list edit) (out : text),
  apply_edits txt es = Some out -> length out + removed es = length txt + inserted es.
Proof. exact apply_edits_length. Qed.

Theorem C28_rename_by_edits :
  forall (txt : text) (ts : list tok) (new : text),
  toks_ok 0 txt ts ->
  let segs := fst (segments 0 txt ts) in
  let tail := snd (segments 0 txt ts) in
  render segs tail = txt /\
  apply_edits txt (edits_of ts new) = Some (render (rename_segments new segs) tail).
Proof. exact rename_by_edits. Qed.

Theorem C28_rename_segments_shape :
  forall (new : text) (segs : list segment),
  map (fun sg : segment => (fst (fst sg), snd sg)) (rename_segments new segs) =
  map (fun sg : segment => (fst (fst sg), snd sg)) segs.
Proof. exact rename_segments_shape. Qed.

Theorem C28_rename_segments_none :
  forall (new : text) (segs : list (text * text * bool)),
  (forall sg : text * text * bool, In sg segs -> snd sg = false) ->
  rename_segments new segs = segs.
Proof. exact rename_segments_none. Qed.

