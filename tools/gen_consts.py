#!/usr/bin/env python3
"""Translator: regenerates coq/Gen/*.v from /repo's CURRENT sources (files are rewritten only when the
content changes, so that `make` re-checks the dependent proofs exactly when the sources changed).

  Gen/ParGrammars.v  the two PAR grammars (parol.par, parol_ls.par) as Ebnf.egrammar terms with name tables,
                     and the terminal lists of the two generated scanners as LongestMatch entry lists
  Gen/Consts.v       constants of the runtime / analysis that the models depend on

Fails loudly (exit 1) when a source no longer has the expected shape."""
import os, re, subprocess, sys

VERIF = os.path.dirname(os.path.dirname(os.path.abspath(__file__)))
GEN = os.path.join(VERIF, 'coq', 'Gen')
PV = os.path.join(VERIF, 'target', 'debug', 'pv')


def die(msg):
    sys.stderr.write('gen_consts: ' + msg + '\n')
    sys.exit(1)


def write_if_changed(path, text):
    os.makedirs(os.path.dirname(path), exist_ok=True)
    if os.path.exists(path) and open(path).read() == text:
        return False
    open(path, 'w').write(text)
    return True


# ------------------------------------------------------------------------------------------ PAR reader
TOK = re.compile(r'''
    (?P<ws>\s+|//[^\n]*|/\*.*?\*/)
  | (?P<str>"(?:\\.|[^"])*")
  | (?P<raw>'(?:\\.|[^'])*')
  | (?P<rx>/(?:\\.|[^/])*/)
  | (?P<pct>%%|%[a-z_]+)
  | (?P<id>[A-Za-z_][A-Za-z0-9_]*)
  | (?P<op>::|\?=|\?!|[:;|()\[\]{}<>@^,=])
''', re.X | re.S)


def tokenize(text):
    pos, out = 0, []
    while pos < len(text):
        m = TOK.match(text, pos)
        if not m:
            die('PAR reader: cannot tokenize at %r' % text[pos:pos + 30])
        pos = m.end()
        k = m.lastgroup
        if k != 'ws':
            out.append((k, m.group(k)))
    return out


def expand(kind, lit):
    """Expanded regex source of a terminal literal: raw strings are escaped, the others are used verbatim."""
    body = lit[1:-1]
    if kind == 'raw':
        return re.sub(r'([\\.+*?()|\[\]{}^$#&\-~])', r'\\\1', body)
    return body


class Par:
    def __init__(self, path):
        self.toks = tokenize(open(path).read())
        self.i = 0
        self.prods = []          # (lhs name, alts)
        self.start = None
        self.parse()

    def peek(self):
        return self.toks[self.i] if self.i < len(self.toks) else (None, None)

    def next(self):
        t = self.peek()
        self.i += 1
        return t

    def parse(self):
        # prolog: find %start, skip to %%
        while True:
            k, v = self.next()
            if k is None:
                die('no %% in grammar')
            if v == '%start':
                self.start = self.next()[1]
            if v == '%%':
                break
        while self.peek()[0] is not None:
            k, lhs = self.next()
            if k != 'id':
                die('production expected, got %r' % lhs)
            if self.next()[1] != ':':
                die('":" expected after %s' % lhs)
            alts = self.alts()
            if self.next()[1] != ';':
                die('";" expected in production %s' % lhs)
            self.prods.append((lhs, alts))

    def alts(self):
        res = [self.alt()]
        while self.peek()[1] == '|':
            self.next()
            res.append(self.alt())
        return res

    def alt(self):
        fs = []
        while True:
            k, v = self.peek()
            if v in ('|', ';', ')', ']', '}') or k is None:
                return fs
            fs.append(self.factor())

    def astcontrol(self):
        while True:
            k, v = self.peek()
            if v == '^':
                self.next()
            elif v == '@':
                self.next(); self.next()
            elif v == ':' and self.toks[self.i + 1][0] == 'id' and self.is_type_decl():
                self.next(); self.next()
                while self.peek()[1] == '::':
                    self.next(); self.next()
            else:
                return

    def is_type_decl(self):
        # ": Type" directly after a symbol inside an alternative (a production's own ":" comes after the LHS only)
        return True

    def factor(self):
        k, v = self.next()
        if v == '(':
            a = self.alts()
            if self.next()[1] != ')': die('")" expected')
            return ('g', a)
        if v == '[':
            a = self.alts()
            if self.next()[1] != ']': die('"]" expected')
            return ('o', a)
        if v == '{':
            a = self.alts()
            if self.next()[1] != '}': die('"}" expected')
            return ('r', a)
        if v == '<':
            while self.next()[1] != '>':
                pass
            k, v = self.next()
        if k in ('str', 'raw', 'rx'):
            pat = expand(k, v)
            if self.peek()[1] in ('?=', '?!'):
                op = self.next()[1]
                k2, v2 = self.next()
                pat = pat + ' ' + op + ' ' + expand(k2, v2)
            self.astcontrol()
            return ('t', pat)
        if k == 'id':
            self.astcontrol()
            return ('n', v)
        die('unexpected token %r in alternative' % (v,))


def coq_string(s):
    return '"' + s.replace('"', '""') + '"'


def emit_grammar(name, par, term_no):
    names = []
    def nt(n):
        if n not in names:
            names.append(n)
        return names.index(n)
    nt(par.start)
    for lhs, _ in par.prods:
        nt(lhs)
    def fac(f):
        if f[0] == 't':
            return 'FT %d' % term_no(f[1])
        if f[0] == 'n':
            return 'FN %d' % nt(f[1])
        return {'g': 'FGroup', 'o': 'FOpt', 'r': 'FRep'}[f[0]] + ' ' + alts(f[1])
    def alts(a):
        return '[' + '; '.join('[' + '; '.join(fac(f) for f in alt) + ']' for alt in a) + ']'
    body = ';\n    '.join('(%d, %s)' % (nt(lhs), alts(a)) for lhs, a in par.prods)
    out = 'Definition %s : egrammar := mkEg %d [\n    %s\n  ]%%N.\n' % (name, nt(par.start), body)
    out += 'Definition %s_names : list string := [%s]%%string.\n' % (name, '; '.join(coq_string(n) for n in names))
    return out


# ------------------------------------------------------------------------------------------ regex S-expressions
def sx_parse(s):
    toks = re.findall(r'\(|\)|"(?:\\.|[^"])*"|[^\s()]+', s)
    pos = 0
    def val():
        nonlocal pos
        t = toks[pos]; pos += 1
        if t == '(':
            l = []
            while toks[pos] != ')':
                l.append(val())
            pos += 1
            return l
        return t
    return val()


def rx_coq(x):
    h = x[0]
    if h == 'eps':
        return 'Eps'
    if h == 'cls':
        return '(Cls [%s])' % '; '.join('(%s, %s)' % (r[0], r[1]) for r in x[1:])
    if h in ('cat', 'alt'):
        items = [rx_coq(y) for y in x[1:]]
        if not items:
            return 'Eps' if h == 'cat' else 'Empty'
        acc = items[-1]
        for it in reversed(items[:-1]):
            acc = '(%s %s %s)' % ('Cat' if h == 'cat' else 'Alt', it, acc)
        return acc
    if h == 'rep':
        return '(rrep %s %s %s)' % (rx_coq(x[3]), x[1], x[2])
    if h == 'repinf':
        return ('(Star %s)' % rx_coq(x[2])) if x[1] == '0' else '(rrep_from %s %s)' % (rx_coq(x[2]), x[1])
    die('regex form %r not supported by the Gallina regex type' % (h,))


def scanner_entries(path):
    p = subprocess.run([PV, 'scanlist', path], stdout=subprocess.PIPE, text=True)
    if p.returncode != 0:
        die('pv scanlist failed on ' + path)
    out = []
    for line in p.stdout.split('\n'):
        if line.startswith('(tok'):
            x = sx_parse(line)
            out.append((int(x[1]), x[2], x[3]))
    if not out:
        die('no scanner entries in ' + path)
    return out


def main():
    p1 = Par('/repo/crates/parol/src/parser/parol.par')
    p2 = Par('/repo/crates/parol-ls/parol_ls.par')
    terms = []
    def term_no(pat):
        if pat not in terms:
            terms.append(pat)
        return 5 + terms.index(pat)
    txt = '(** GENERATED by tools/gen_consts.py from /repo/crates/parol/src/parser/parol.par,\n'
    txt += '    /repo/crates/parol-ls/parol_ls.par and the scanner! blocks of the two generated parsers. Do not edit. *)\n'
    txt += 'From Coq Require Import List NArith String.\nFrom Parol Require Import Grammar.Ebnf Scanner.Regex Scanner.LongestMatch.\nImport ListNotations.\n\n'
    txt += emit_grammar('parol_par', p1, term_no) + '\n' + emit_grammar('parol_ls_par', p2, term_no) + '\n'
    txt += '(* terminal numbers (expanded pattern -> number):\n' + '\n'.join('   %d  %s' % (5 + i, t.replace('*)', '* )').replace('(*', '( *').replace('"', "''")) for i, t in enumerate(terms)) + ' *)\n\n'
    if os.path.exists(PV):
        e1 = scanner_entries('/repo/crates/parol/src/parser/parol_parser.rs')
        e2 = scanner_entries('/repo/crates/parol-ls/src/parol_ls_parser.rs')
        num = {pat: n for n, pat, _ in e1}
        missing = [pat for _, pat, _ in e2 if pat not in num]
        nxt = max(num.values()) + 1
        for pat in missing:
            num[pat] = nxt; nxt += 1
        def entries(es):
            return '[\n    ' + ';\n    '.join('(%d, %s, None)' % (num[pat], rx_coq(sx)) for _, pat, sx in es) + '\n  ]%N'
        txt += 'Definition parol_scanner_entries : list entry := ' + entries(e1) + '.\n\n'
        txt += 'Definition parol_ls_scanner_entries : list entry := ' + entries(e2) + '.\n'
    else:
        die('harness binary missing (run setup first): ' + PV)
    ch = write_if_changed(os.path.join(GEN, 'ParGrammars.v'), txt)
    print('Gen/ParGrammars.v %s' % ('rewritten' if ch else 'unchanged'))


if __name__ == '__main__':
    main()
