"""Correspondence runs for the language-server properties (C27, C28, C30, C34, C29): they drive the REAL
parol-ls binary over LSP/stdio (tools/lsp.py) and use parol's own front end (pv par) as oracle."""
import glob, hashlib, json, os, random, subprocess, sys, time
import lsp
import checklib as cl

WHITESPACE_TYPES = (1, 2)
COMMENT_TYPES = (3, 4)
IDENT = 39
PAR_TOKEN = {5: '%start', 6: '%title', 7: '%comment', 8: '%user_type', 9: '=', 10: '%nt_type', 11: '%t_type', 12: '%grammar_type',
             13: '%line_comment', 14: '%block_comment', 15: '%auto_newline_off', 16: '%auto_ws_off', 17: '%skip', 18: '%on',
             19: '%allow_unmatched', 20: '%enter', 21: '%push', 22: '%pop', 23: '%%', 24: '::', 25: ':', 26: ';', 27: '|', 28: '<', 29: '>',
             30: 'String', 31: 'RawString', 32: 'Regex', 33: '(', 34: ')', 35: '[', 36: ']', 37: '{', 38: '}', 39: 'Ident', 40: '%scanner',
             41: ',', 42: '@', 43: '^', 44: '?=', 45: '?!'}


def corpus():
    files = sorted(glob.glob('/repo/**/*.par', recursive=True))
    out = []
    for f in files:
        if '/target/' in f:
            continue
        try:
            t = open(f, encoding='utf-8').read()
        except Exception:
            continue
        if len(t) < 6000:
            out.append((os.path.relpath(f, '/repo'), t))
    return out


def gen_grammar(rng, comments=True):
    """A small valid PAR text with comments in many positions and assorted annotations."""
    nts = ['S'] + [rng.choice(['Alpha', 'Beta', 'Gamma', 'Item', 'List', 'Expr', 'Term', 'X1', 'Y_2']) + str(i) for i in range(rng.randint(0, 3))]
    terms = ['"a"', "'b'", '/c+/', '"d"^', "'+'", '/[0-9]+/', '"x" ?= "y"', "'e'@el"]
    def cm():
        if not comments or rng.random() > 0.25:
            return ' '
        return rng.choice([' // line comment %d\n' % rng.randint(0, 9), ' /* block %d */ ' % rng.randint(0, 9), '\n// c\n', ' /* a\n b */ '])
    def factor(depth):
        r = rng.random()
        if depth > 0 and r < 0.12:
            return '(' + cm() + alts(depth - 1) + cm() + ')'
        if depth > 0 and r < 0.24:
            return '[' + cm() + alts(depth - 1) + ']'
        if depth > 0 and r < 0.36:
            return '{' + alts(depth - 1) + cm() + '}'
        if r < 0.65:
            n = rng.choice(nts)
            return n + rng.choice(['', '', '^', '@m%d' % rng.randint(0, 3)])
        return rng.choice(terms)
    def alt(depth):
        return cm().join(factor(depth) for _ in range(rng.randint(1, 3)))
    def alts(depth):
        return (cm() + '|' + cm()).join(alt(depth) for _ in range(rng.randint(1, 2)))
    s = '%start S' + cm() + '\n'
    if rng.random() < 0.3:
        s += '%title "T"' + cm() + '\n'
    if rng.random() < 0.3:
        s += '%comment "C"\n'
    if rng.random() < 0.3:
        s += "%grammar_type 'lalr(1)'\n"
    if rng.random() < 0.3:
        s += "%line_comment '//'\n"
    if rng.random() < 0.3:
        s += "%block_comment '/*' '*/'\n"
    if rng.random() < 0.2:
        s += '%auto_newline_off\n'
    sc = rng.random() < 0.3
    if sc:
        s += '%scanner Sc {' + cm() + '%auto_ws_off' + cm() + '}\n'
    s += cm() + '%%' + cm() + '\n'
    for n in nts:
        body = alts(2)
        if sc and rng.random() < 0.5:
            body += ' | <Sc> "z"'
        s += n + cm() + ':' + cm() + body + cm() + ';' + cm() + '\n'
    return s


def par_oracle(texts, wdir, tag):
    path = os.path.join(wdir, 'par-%s.jsonl' % tag)
    with open(path, 'w') as f:
        for t in texts:
            f.write(json.dumps(t) + '\n')
    p = subprocess.run([cl.PV, 'par', path], stdout=subprocess.PIPE, stderr=subprocess.DEVNULL, text=True, env=cl.ENV, timeout=1200)
    res = [json.loads(l) for l in p.stdout.split('\n') if l.startswith('{')]
    import re
    for r in res:
        # source positions are not part of the grammar
        r['cfg'] = re.sub(r'Location \{[^}]*\}', 'Location', r['cfg'])
    if len(res) != len(texts):
        raise cl.MachineryError('pv par returned %d results for %d texts' % (len(res), len(texts)))
    return res


def sig_tokens(text, toks):
    b = text.encode('utf-8')
    return [(ty, b[s:e].decode('utf-8', 'replace')) for ty, s, e in toks if ty >= 5]


def comment_tokens(text, toks):
    b = text.encode('utf-8')
    return [b[s:e].decode('utf-8', 'replace').strip() for ty, s, e in toks if ty in COMMENT_TYPES]


def new_result():
    return dict(evaluations=0, ok=0, skipped=0, nontrivial=set(), failures=[], samples=[], dist={}, skip_reasons={}, notes=[])


def fail(res, key, why, case):
    res['failures'].append(dict(key=key, why=why, case=case, cmd=['lschecks'], index=len(res['failures'])))


def ensure_ls():
    ok, out = lsp.build_ls()
    if not ok:
        raise cl.MachineryError('parol-ls build failed:\n' + out)


def texts_for(seed, tier, n_quick, n_thorough, comments=True):
    rng = random.Random(seed)
    n = n_thorough if tier == 'thorough' else n_quick
    cs = corpus()
    rng.shuffle(cs)
    take = cs if tier == 'thorough' else cs[:60]
    out = [(name, t) for name, t in take]
    out += [('gen-%d' % i, gen_grammar(rng, comments)) for i in range(n)]
    return out, rng


FORMAT_OPTIONS = [
    {},
    {'formatting.empty_line_after_prod': False},
    {'formatting.prod_semicolon_on_nl': False},
    {'formatting.max_line_length': 40},
    {'formatting.empty_line_after_prod': False, 'formatting.prod_semicolon_on_nl': False, 'formatting.max_line_length': 60},
]


def do_format(srv, uri, text, version, opts):
    o = {'tabSize': 4, 'insertSpaces': True}
    settings = {'formatting.empty_line_after_prod': True, 'formatting.prod_semicolon_on_nl': True, 'formatting.max_line_length': 100}
    settings.update(opts)
    # the server overrides request options by its own settings: set them through the configuration channel
    srv.notify('workspace/didChangeConfiguration', {'settings': settings})
    st, r = srv.request('textDocument/formatting', {'textDocument': {'uri': uri}, 'options': o})
    if st != 'ok':
        return st, None
    if not r:
        return 'ok', text
    return 'ok', lsp.apply_edits(text, r) if not (len(r) == 1 and r[0]['range']['end']['line'] > 10**6) else r[0]['newText']


def c27(pid, spec, tier, seed):
    """Formatter: same grammar, all comments in order, idempotent."""
    ensure_ls()
    res = new_result()
    wdir = os.path.join(cl.WORK, pid)
    texts, rng = texts_for(seed, tier, 120, 3000)
    oracle = par_oracle([t for _, t in texts], wdir, 'in')
    valid = [(n, t, o) for (n, t), o in zip(texts, oracle) if o['ok'] and not o['cfg'].startswith('CONFIG-ERROR')]
    srv = lsp.Server()
    formatted = []
    for i, (name, text, o) in enumerate(valid):
        uri = 'file:///c27_%d.par' % i
        opts = FORMAT_OPTIONS[i % len(FORMAT_OPTIONS)]
        srv.open(uri, text, 1)
        st, f1 = do_format(srv, uri, text, 1, opts)
        if st != 'ok' or not srv.alive():
            site = srv.panic_site()
            fail(res, 'server-' + st + (':' + site.split(' ')[0] if site else ''), 'formatting request: ' + st + ' ' + site, json.dumps(dict(name=name, text=text, options=opts)))
            srv = lsp.Server()
            formatted.append(None)
            continue
        srv.change(uri, f1, 2)
        st, f2 = do_format(srv, uri, f1, 2, opts)
        if st != 'ok' or not srv.alive():
            site = srv.panic_site()
            fail(res, 'server-' + st + (':' + site.split(' ')[0] if site else ''), 'second formatting request: ' + st + ' ' + site, json.dumps(dict(name=name, text=f1, options=opts)))
            srv = lsp.Server()
            formatted.append(None)
            continue
        formatted.append((f1, f2, opts))
        srv.notify('textDocument/didClose', {'textDocument': {'uri': uri}})
        srv.notifications.clear()
    srv.close()
    outs = par_oracle([f[0] if f else '' for f in formatted], wdir, 'out')
    for (name, text, o), f, oo in zip(valid, formatted, outs):
        res['evaluations'] += 1
        if f is None:
            continue
        f1, f2, opts = f
        case = json.dumps(dict(name=name, text=text, options=opts, formatted=f1))
        nt = len(comment_tokens(text, o['tokens'])) >= 1
        if not oo['ok']:
            fail(res, 'formatted-text-invalid', 'the formatted text is rejected by parol', case)
        elif oo['cfg'] != o['cfg']:
            fail(res, 'grammar-changed', 'the formatted text describes a different grammar', case)
        elif sig_tokens(text, o['tokens']) != sig_tokens(f1, oo['tokens']):
            fail(res, 'tokens-changed', 'the significant token sequence changed', case)
        elif ''.join(''.join(c.split()) for c in comment_tokens(text, o['tokens'])) != ''.join(''.join(c.split()) for c in comment_tokens(f1, oo['tokens'])):
            # compared as ONE concatenated text (white space removed): two block comments that the formatter
            # puts next to each other are read as one token by parol's scanner (finding D6b of C15), which must
            # not be blamed on the formatter
            a, b = comment_tokens(text, o['tokens']), comment_tokens(f1, oo['tokens'])
            ja, jb = ''.join(''.join(c.split()) for c in a), ''.join(''.join(c.split()) for c in b)
            i = next((k for k in range(min(len(ja), len(jb))) if ja[k] != jb[k]), min(len(ja), len(jb)))
            key = 'comment-lost' if len(jb) < len(ja) else ('comment-order' if sorted(ja) == sorted(jb) else 'comment-changed')
            if key == 'comment-lost':
                # classify by the syntactic position of the first comment that is missing: the kinds of the
                # significant tokens before and after it, and whether it stands inside a group/optional/repetition
                nb = [''.join(c.split()) for c in b]
                toks = o['tokens']
                depth = 0
                prev = 'start'
                lost = None
                bi = 0
                bt = text.encode('utf-8')
                pending = ''.join(nb)
                for ti, (ty, st_, en) in enumerate(toks):
                    if ty in COMMENT_TYPES:
                        ctext = ''.join(bt[st_:en].decode('utf-8', 'replace').split())
                        if pending.startswith(ctext):
                            pending = pending[len(ctext):]
                        else:
                            nxt = next((t2 for (t2, _, _) in toks[ti + 1:] if t2 >= 5), 0)
                            lost = (prev, PAR_TOKEN.get(nxt, str(nxt)), depth > 0, ty)
                            break
                    elif ty >= 5:
                        prev = PAR_TOKEN.get(ty, str(ty))
                        if ty in (33, 35, 37):
                            depth += 1
                        elif ty in (34, 36, 38):
                            depth -= 1
                if lost:
                    region = 'prolog' if '%%' not in [PAR_TOKEN.get(t2) for (t2, _, _) in toks[:ti]] else ('between-productions' if lost[0] in (';', '%%') else 'production-body')
                    key = 'comment-lost'
            fail(res, key, 'comment text differs at %d: original ...%r, formatted ...%r' % (i, ja[max(0, i - 20):i + 30], jb[max(0, i - 20):i + 30]), case)
        elif f2 != f1:
            fail(res, 'not-idempotent', 'formatting the formatted text changes it again', case)
        else:
            res['ok'] += 1
            if nt:
                res['nontrivial'].add(hashlib.md5(case.encode()).digest())
                if len(res['samples']) < 2:
                    res['samples'].append(dict(name=name, text=text[:300], formatted=f1[:300]))
            k = 'options-%d' % FORMAT_OPTIONS.index(opts)
            res['dist'][k] = res['dist'].get(k, 0) + 1
    res['skipped'] = len(texts) - len(valid)
    res['skip_reasons']['input rejected by parol (not a valid grammar text)'] = res['skipped']
    return res


def gen_shared_names(rng):
    """A grammar in which one identifier names BOTH a scanner state and a non-terminal (separate name spaces)."""
    nm = rng.choice(['Str', 'Inner', 'Body', 'X'])
    kind = rng.choice(['enter', 'push'])
    back = 'enter INITIAL' if kind == 'enter' else 'pop'
    s = '%%start S\n%%on Q %%%s %s\n%%scanner %s {\n    %%on Q %%%s\n}\n%%%%\n' % (kind, nm, nm, back)
    s += 'S: %s Q <%s>"in" Q%s;\n' % (nm, nm, rng.choice(['', ' ' + nm, ' [ %s ]' % nm]))
    s += '%s: "x"%s;\n' % (nm, rng.choice(['', ' | "y"', ' { "z" }']))
    s += 'Q: <INITIAL, %s>"q";\n' % nm
    return s


def c28(pid, spec, tier, seed):
    """Rename: consistent renaming of non-terminals / scanner states."""
    ensure_ls()
    res = new_result()
    wdir = os.path.join(cl.WORK, pid)
    texts, rng = texts_for(seed, tier, 100, 2500, comments=True)
    texts += [('shared-%d' % i, gen_shared_names(rng)) for i in range(300 if tier == 'thorough' else 25)]
    oracle = par_oracle([t for _, t in texts], wdir, 'in')
    valid = [(n, t, o) for (n, t), o in zip(texts, oracle) if o['ok'] and not o['cfg'].startswith('CONFIG-ERROR')]
    srv = lsp.Server()
    jobs = []
    for i, (name, text, o) in enumerate(valid):
        uri = 'file:///c28_%d.par' % i
        b = text.encode('utf-8')
        idents = [(s, e, b[s:e].decode()) for ty, s, e in o['tokens'] if ty == IDENT]
        if not idents:
            continue
        srv.open(uri, text, 1)
        picks = idents if tier == 'thorough' else rng.sample(idents, min(3, len(idents)))
        for (s, e, nm) in picks:
            # byte offset -> (line, character) in chars
            pre = b[:s].decode('utf-8')
            line = pre.count('\n')
            col = len(pre) - (pre.rfind('\n') + 1)
            pos = {'line': line, 'character': col}
            st, pr = srv.request('textDocument/prepareRename', {'textDocument': {'uri': uri}, 'position': pos})
            if st != 'ok' or not srv.alive():
                fail(res, 'server-' + st, 'prepareRename: ' + st, json.dumps(dict(name=name, text=text, position=pos)))
                srv = lsp.Server(); srv.open(uri, text, 1)
                continue
            if pr is None:
                res['dist']['not-renameable'] = res['dist'].get('not-renameable', 0) + 1
                continue
            new = nm + 'Q9'   # sorts directly after the old name in most name sets
            st, wr = srv.request('textDocument/rename', {'textDocument': {'uri': uri}, 'position': pos, 'newName': new})
            if st != 'ok' or not srv.alive():
                fail(res, 'server-' + st, 'rename: ' + st, json.dumps(dict(name=name, text=text, position=pos)))
                srv = lsp.Server(); srv.open(uri, text, 1)
                continue
            edits = []
            if wr:
                for dc in wr.get('documentChanges', []) or []:
                    edits += dc.get('edits', [])
                for u, es in (wr.get('changes') or {}).items():
                    edits += es
            jobs.append((name, text, o, nm, new, pos, edits))
        srv.notify('textDocument/didClose', {'textDocument': {'uri': uri}})
        srv.notifications.clear()
    srv.close()
    outs = par_oracle([lsp.apply_edits(t, e) for (_, t, _, _, _, _, e) in jobs], wdir, 'out')
    for (name, text, o, nm, new, pos, edits), oo in zip(jobs, outs):
        res['evaluations'] += 1
        newtext = lsp.apply_edits(text, edits)
        case = json.dumps(dict(name=name, text=text, symbol=nm, new_name=new, position=pos, edits=edits))
        before = sig_tokens(text, o['tokens'])
        if not oo['ok']:
            fail(res, 'renamed-text-invalid', 'the text after applying the rename edits is rejected by parol', case)
            continue
        after = sig_tokens(newtext, oo['tokens'])
        # expected: exactly the identifier tokens equal to the old name that denote the same symbol become the new name.
        # Oracle: the grammar obtained by renaming consistently = parol's reading of the new text must equal parol's
        # reading of the old text with the name replaced in its dump.
        if len(before) != len(after):
            fail(res, 'token-count-changed', 'the number of significant tokens changed', case)
            continue
        changed = [(x, y) for x, y in zip(before, after) if x != y]
        if any(not (x[0] == IDENT and x[1] == nm and y == (IDENT, new)) for x, y in changed):
            fail(res, 'other-token-changed', 'a token other than the renamed identifier changed: %r' % changed[:3], case)
            continue
        if not changed:
            fail(res, 'nothing-renamed', 'prepareRename accepted the position but no occurrence was renamed', case)
            continue
        # the resulting grammar must be the old grammar with the symbol renamed everywhere (and nothing else)
        import re
        # also the helper non-terminals the canonicalization derives from the name (XOpt, XList1, XGroup...)
        want = re.sub(r'"%s((?:(?:Opt|List|Group)\d*)*)"' % re.escape(nm), lambda m: '"%s%s"' % (new, m.group(1)), o['cfg'])
        def bag(x):
            return sorted(re.findall(r'[A-Za-z0-9_]+|[^A-Za-z0-9_\s]', x))
        # name-sorted collections inside the dump may be ordered differently after the renaming: compare as bags too
        want2 = o['cfg'].replace('"%s"' % nm, '"%s"' % new)   # names that merely start with the old name are the user's own
        # identifiers that are segments of a user type path (A::B::C) are not occurrences of a grammar symbol
        def symbol_occurrences(seq):
            return sum(1 for i, t in enumerate(seq) if t == (IDENT, nm)
                       and not (i > 0 and seq[i - 1][1] == '::') and not (i + 1 < len(seq) and seq[i + 1][1] == '::'))
        n_left0 = symbol_occurrences(after)
        # non-terminals and scanner states live in separate name spaces: when the name denotes one of each, renaming
        # one of them must leave the other alone
        if ('scanner_name: "%s"' % nm) in o['cfg'] and ('N("%s"' % nm) in o['cfg']:
            if ('scanner_name: "%s"' % new) in oo['cfg'] and ('N("%s"' % new) in oo['cfg']:
                fail(res, 'rename-touches-other-symbol', 'the name denotes a scanner state and a non-terminal; renaming one of them also renamed the other', case)
                continue
            if n_left0 == 0:
                fail(res, 'rename-touches-other-symbol', 'the name denotes a scanner state and a non-terminal, but every occurrence of the identifier was replaced', case)
                continue
            res['ok'] += 1
            res['nontrivial'].add(hashlib.md5(case.encode()).digest())
            res['dist']['shared-name'] = res['dist'].get('shared-name', 0) + 1
            continue
        # every identifier token with the old name was replaced by the fresh name and nothing else changed: the token
        # sequence is the original one with the name substituted, hence (the grammar being a function of the token
        # sequence) the grammar is the consistently renamed one
        if n_left0 == 0 or oo['cfg'] in (want, want2) or bag(oo['cfg']) in (bag(want), bag(want2)):
            res['ok'] += 1
            if len(changed) >= 2:
                res['nontrivial'].add(hashlib.md5(case.encode()).digest())
                if len(res['samples']) < 2:
                    res['samples'].append(dict(text=text[:300], symbol=nm, edits=len(edits)))
            res['dist']['renamed-%d-occurrences' % min(len(changed), 5)] = res['dist'].get('renamed-%d-occurrences' % min(len(changed), 5), 0) + 1
        else:
            # partially renamed (some occurrences of the same symbol kept the old name) or a different symbol with the same name renamed
            n_left = sum(1 for t in after if t == (IDENT, nm))
            fail(res, 'inconsistent-rename', 'the renamed text is not the original grammar with %s renamed everywhere (%d occurrences of the old name remain)' % (nm, n_left), case)
    return res


def c30(pid, spec, tier, seed):
    """No request crashes the server, at any position of any text."""
    ensure_ls()
    res = new_result()
    p2o_stream(pid, res, tier, seed)
    rng = random.Random(seed)
    cs = corpus()
    rng.shuffle(cs)
    base = [t for _, t in cs[:(200 if tier == 'thorough' else 12)]]
    base += [gen_grammar(rng) for _ in range(300 if tier == 'thorough' else 14)]
    texts = []
    for t in base:
        texts.append(t)
        # multi-byte characters, CRLF, unterminated last line, broken syntax
        texts.append(t.replace('"a"', '"Üä"').replace('// ', '// ü\U0001F600 '))
        texts.append(t.replace('\n', '\r\n'))
        texts.append(t.rstrip('\n') + ' // Ü')
        if len(t) > 20:
            i = rng.randrange(len(t))
            texts.append(t[:i] + rng.choice([';;', '%%', '(', '"', "'", 'Ü']) + t[i:])
    texts += ['', '\n', 'Ü', '%start', '%start S\n%%\nS: ;', 'S: "Ü";\nÜ']
    srv = lsp.Server()
    kinds = ['hover', 'definition', 'documentSymbol', 'prepareRename', 'rename', 'formatting', 'codeAction']
    for ti, text in enumerate(texts):
        uri = 'file:///c30_%d.par' % ti
        srv.open(uri, text, 1)
        lines = text.split('\n')
        positions = []
        nlines = len(lines)
        cand_lines = sorted(set([0, nlines - 1, nlines, nlines + 3] + [rng.randrange(nlines + 1) for _ in range(4)]))
        for l in cand_lines:
            ll = len(lines[l].rstrip('\r')) if 0 <= l < nlines else 0
            for c in sorted(set([0, max(0, ll - 1), ll, ll + 1, ll + 7, rng.randrange(ll + 2)])):
                positions.append({'line': l, 'character': c})
        if tier != 'thorough':
            positions = rng.sample(positions, min(10, len(positions)))
        for pos in positions:
            for kind in kinds:
                td = {'textDocument': {'uri': uri}}
                if kind == 'hover':
                    m, p = 'textDocument/hover', dict(td, position=pos)
                elif kind == 'definition':
                    m, p = 'textDocument/definition', dict(td, position=pos)
                elif kind == 'documentSymbol':
                    m, p = 'textDocument/documentSymbol', td
                elif kind == 'prepareRename':
                    m, p = 'textDocument/prepareRename', dict(td, position=pos)
                elif kind == 'rename':
                    m, p = 'textDocument/rename', dict(td, position=pos, newName='Nn1')
                elif kind == 'formatting':
                    m, p = 'textDocument/formatting', dict(td, options={'tabSize': 4, 'insertSpaces': True})
                else:
                    endp = {'line': pos['line'] + 1, 'character': pos['character'] + 3}
                    m, p = 'textDocument/codeAction', dict(td, range={'start': pos, 'end': endp}, context={'diagnostics': []})
                if kind in ('documentSymbol', 'formatting') and pos is not positions[0]:
                    continue
                st, r = srv.request(m, p, timeout=30)
                res['evaluations'] += 1
                case = json.dumps(dict(text=text, request=m, position=pos))
                if st in ('dead', 'timeout') or not srv.alive():
                    multibyte = any(ord(ch) > 127 for ch in text)
                    past = pos['line'] >= nlines or pos['character'] > (len(lines[pos['line']]) if pos['line'] < nlines else 0)
                    site = srv.panic_site()
                    key = ('crash-%s:%s' % (kind, site.split(' ')[0])) if site else ('crash-%s%s%s' % (kind, '-multibyte' if multibyte else '', '-past-end' if past else ''))
                    fail(res, key, 'the server %s on %s at %s %s' % ('died' if st == 'dead' or not srv.alive() else 'did not answer', m, pos, site), case)
                    try:
                        srv.p.kill()
                    except Exception:
                        pass
                    srv = lsp.Server()
                    srv.open(uri, text, 1)
                else:
                    res['ok'] += 1
                    past = pos['line'] >= nlines or (pos['line'] < nlines and pos['character'] > len(lines[pos['line']]))
                    if past or any(ord(ch) > 127 for ch in (lines[pos['line']] if pos['line'] < nlines else '')):
                        res['nontrivial'].add(hashlib.md5(case.encode()).digest())
                        if len(res['samples']) < 2:
                            res['samples'].append(dict(text=text[:200], request=m, position=pos))
                    res['dist'][kind] = res['dist'].get(kind, 0) + 1
        srv.notify('textDocument/didClose', {'textDocument': {'uri': uri}})
        srv.notifications.clear()
    srv.close()
    return res


def drv_lines(pid, lines, res, tagname):
    """Evaluate case lines with the extracted Coq checkers (ocaml/_build/drv) and merge the verdicts into res."""
    wdir = os.path.join(cl.WORK, pid)
    path = os.path.join(wdir, tagname + '.cases')
    open(path, 'w').write('\n'.join(lines) + '\n')
    with open(path) as fi:
        p = subprocess.run([cl.DRV], stdin=fi, stdout=subprocess.PIPE, stderr=subprocess.PIPE, text=True, env=dict(os.environ, PV_PROP=pid), timeout=3000)
    vs = p.stdout.strip().split('\n') if p.stdout.strip() else []
    if len(vs) != len(lines):
        raise cl.MachineryError('driver verdict count mismatch: %d vs %d: %s' % (len(vs), len(lines), p.stderr[-500:]))
    import re
    for c, v in zip(lines, vs):
        res['evaluations'] += 1
        if v.startswith('OK'):
            res['ok'] += 1
            parts = v.split()
            if len(parts) > 1 and parts[1] == '1':
                res['nontrivial'].add(hashlib.md5(c.encode()).digest())
            for tg in parts[2:]:
                res['dist'][tg] = res['dist'].get(tg, 0) + 1
        elif v.startswith('SKIP'):
            res['skipped'] += 1
        else:
            m = re.match(r'FAIL\s+(?:key=(\S+)\s+)?(.*)', v)
            fail(res, m.group(1) if m else None, m.group(2) if m else v, c)


def p2o_stream(pid, res, tier, seed):
    """pos_to_offset through the cfg-guarded batch mode of the real binary, checked by the proved predicates."""
    rng = random.Random(seed ^ 0x30)
    alphabet = ['a', 'b', ';', ' ', '\n', '\r', '\u00dc', '\u20ac', '\U0001F600', '"']
    cases = []
    # all texts up to length 3 (thorough: 4) over 6 characters, every position in a small window
    small = ['a', '\u00dc', '\u20ac', '\U0001F600', '\r', '\n']
    import itertools
    for n in range(0, (5 if tier == 'thorough' else 4)):
        for tup in itertools.product(small, repeat=n):
            t = ''.join(tup)
            for line in range(0, 4):
                for col in range(0, 5):
                    if tier == 'thorough' or rng.random() < 0.25:
                        cases.append((t, line, col))
    for _ in range(20000 if tier == 'thorough' else 1500):
        t = ''.join(rng.choice(alphabet) for _ in range(rng.randint(0, 30)))
        nl = t.count('\n')
        cases.append((t, rng.randint(0, nl + 2), rng.randint(0, 12)))
    inp = '\n'.join(json.dumps({'op': 'pos_to_offset', 'text': t, 'line': l, 'col': c}) for t, l, c in cases) + '\n'
    p = subprocess.run([lsp.LS_BIN], input=inp, stdout=subprocess.PIPE, stderr=subprocess.DEVNULL, text=True,
                       env=dict(os.environ, PAROL_LS_VERIF='1'), timeout=1200)
    outs = [json.loads(l) for l in p.stdout.split('\n') if l.startswith('{')]
    if len(outs) != len(cases):
        raise cl.MachineryError('parol-ls batch mode returned %d answers for %d commands' % (len(outs), len(cases)))
    lines = []
    for (t, l, c), o in zip(cases, outs):
        r = 'panic' if o.get('panic') else '(ok %d)' % o['offset']
        lines.append('(p2o (%s) %d %d %s)' % (' '.join(str(ord(ch)) for ch in t), l, c, r))
    drv_lines(pid, lines, res, 'p2o')


PAR_VOCAB = ['%start', '%title', '%comment', '%user_type', '=', '%nt_type', '%t_type', '%grammar_type', '%line_comment',
             '%block_comment', '%auto_newline_off', '%auto_ws_off', '%skip', '%on', '%allow_unmatched', '%enter', '%push', '%pop',
             '%%', '::', ':', ';', '|', '<', '>', '"s"', "'r'", '/x/', '(', ')', '[', ']', '{', '}', 'Id', '%scanner', ',', '@', '^', '?=', '?!',
             '// c\n', '/* c */', '\n', ' ', 'Ü', '"', "'", '/', '%', '%x']


def mutate_text(rng, text, o):
    """One token-level edit of a valid text (delete / duplicate / replace / insert a vocabulary item / swap)."""
    b = text.encode('utf-8')
    toks = [(s, e) for ty, s, e in o['tokens'] if ty >= 5]
    if not toks:
        return text + rng.choice(PAR_VOCAB)
    i = rng.randrange(len(toks))
    s, e = toks[i]
    k = rng.randrange(5)
    if k == 0:
        nb = b[:s] + b[e:]
    elif k == 1:
        nb = b[:e] + b' ' + b[s:e] + b[e:]
    elif k == 2:
        nb = b[:s] + rng.choice(PAR_VOCAB).encode() + b[e:]
    elif k == 3:
        nb = b[:s] + rng.choice(PAR_VOCAB).encode() + b' ' + b[s:]
    else:
        j = rng.randrange(len(toks))
        s2, e2 = toks[j]
        if s2 < s:
            s, e, s2, e2 = s2, e2, s, e
        if e <= s2:
            nb = b[:s] + b[s2:e2] + b[e:s2] + b[s:e] + b[e2:]
        else:
            nb = b
    return nb.decode('utf-8', 'replace')


def c34(pid, spec, tier, seed):
    """Both REAL grammar parsers (parol's and the language server's) on the same texts: same verdict."""
    ensure_ls()
    res = new_result()
    wdir = os.path.join(cl.WORK, pid)
    texts, rng = texts_for(seed, tier, 150, 4000)
    base = [t for _, t in texts]
    # every declaration and annotation form of the PAR language (%nt_type, %t_type, %user_type, %skip, %on, scanner blocks,
    # lookaheads, member names, cut operators ...)
    base += [gen_annotated(rng) for _ in range(1500 if tier == 'thorough' else 150)]
    oracle = par_oracle(base, wdir, 'base')
    allt = list(base)
    for t, o in zip(base, oracle):
        if o['ok']:
            for _ in range(3 if tier == 'thorough' else 2):
                allt.append(mutate_text(rng, t, o))
    for _ in range(2000 if tier == 'thorough' else 200):
        allt.append(' '.join(rng.choice(PAR_VOCAB) for _ in range(rng.randint(1, 25))))
    allt = list(dict.fromkeys(allt))
    po = par_oracle(allt, wdir, 'all')
    inp = '\n'.join(json.dumps({'op': 'parse', 'text': t}) for t in allt) + '\n'
    p = subprocess.run([lsp.LS_BIN], input=inp, stdout=subprocess.PIPE, stderr=subprocess.DEVNULL, text=True,
                       env=dict(os.environ, PAROL_LS_VERIF='1'), timeout=3000)
    lo = [json.loads(l) for l in p.stdout.split('\n') if l.startswith('{')]
    if len(lo) != len(allt):
        raise cl.MachineryError('parol-ls batch mode returned %d answers for %d texts' % (len(lo), len(allt)))
    for t, a, b in zip(allt, po, lo):
        res['evaluations'] += 1
        case = json.dumps(dict(text=t))
        if a.get('panic') or b.get('panic'):
            fail(res, 'panic-' + ('parol' if a.get('panic') else 'parol-ls'), 'a grammar parser panicked', case)
        elif (a['ok'] or a['cfg'].startswith('SEMANTIC-ERROR')) != (b.get('kind') in ('ok', 'semantic')):
            # only SYNTAX errors are compared: errors raised by the semantic actions of either front end are not syntax errors
            sa = a['ok'] or a['cfg'].startswith('SEMANTIC-ERROR')
            fail(res, 'syntax-accepted-only-by-' + ('parol' if sa else 'parol-ls'), 'parol: %s, language server: %s' % ('no syntax error' if sa else 'syntax error', b.get('kind')), case)
        else:
            res['ok'] += 1
            ntok = len([1 for ty, _, _ in a['tokens'] if ty >= 5])
            if ntok >= 10 or not a['ok']:
                res['nontrivial'].add(hashlib.md5(case.encode()).digest())
                if len(res['samples']) < 2 and len(t) < 300:
                    res['samples'].append(dict(text=t, ok=a['ok']))
            k = 'both-accept' if a['ok'] else 'both-reject'
            res['dist'][k] = res['dist'].get(k, 0) + 1
    return res


C29_TEXT = {
    'sync': '%start S\n%%\nS: ;;\n',
    'bgerr': '%start S\n%%\nS: A | B;\nA: "a" "b";\nB: "a" "c";\n',
    'bgwarn': "%start S\n%grammar_type 'lalr(1)'\n%%\nS: S \"+\" S | \"x\";\n",
    'ok': '%start S\n%%\nS: "a";\n',
}
C29_CLASS = {'sync': 'TSyncErr', 'bgerr': 'TBgErr', 'bgwarn': 'TBgWarn', 'ok': 'TOk'}


def c29_classify(diags):
    if not diags:
        return 'DOk'
    msg = ' '.join(d.get('message', '') for d in diags)
    if 'Maximum lookahead' in msg:
        return 'DBgErr'
    if 'resolved conflicts' in msg:
        return 'DBgWarn'
    return 'DSyncErr'


def c29_history(hist, idx):
    """hist: list of (class, slow). Returns (real log, model schedule)."""
    srv = lsp.Server(lookahead=1, env_extra={'PAROL_LS_VERIF_BG_DELAY_MS': '1600'})
    uri = 'file:///c29_%d.par' % idx
    sched = []
    outstanding = []   # slow analyses still running, in spawn order
    for i, (c, slow) in enumerate(hist):
        text = ('// verif-slow %d\n' % i if slow else '// v%d\n' % i) + C29_TEXT[c]
        if i == 0:
            srv.open(uri, text, 1)
        else:
            srv.change(uri, text, i + 1)
        sched += [0] if c == 'sync' else [0, 1]
        if c != 'sync':
            if slow:
                outstanding.append(i)
            else:
                srv.drain(0.2)
                sched.append(2 + len(outstanding))
    srv.drain(0.25)
    sched += [2] * len(outstanding)
    srv.drain(2.2 if outstanding else 0.3)
    log = [(d['version'], c29_classify(d['diagnostics'])) for d in srv.diagnostics(uri)]
    alive = srv.alive()
    srv.close()
    return log, sched, alive


def c29(pid, spec, tier, seed):
    """Histories of open/change events with slow/fast background analyses against the real server and the model."""
    ensure_ls()
    res = new_result()
    rng = random.Random(seed ^ 0x29)
    import itertools
    from concurrent.futures import ThreadPoolExecutor
    kinds = []
    # 'bgwarn' (LALR grammar with resolved conflicts) is not used: over stdio the analysis thread blocks for ever in the
    # println! of the table generator (stdout is locked by the LSP writer thread), so it never finishes (observation D18)
    for c in ('sync', 'bgerr', 'ok'):
        kinds.append((c, False))
        if c != 'sync':
            kinds.append((c, True))
    hists = [list(h) for n in (1, 2) for h in itertools.product(kinds, repeat=n)]
    h3 = [list(h) for h in itertools.product(kinds, repeat=3)]
    hists += h3 if tier == 'thorough' else rng.sample(h3, 24)
    if tier == 'thorough':
        h4 = [list(h) for h in itertools.product(kinds, repeat=4)]
        hists += rng.sample(h4, 150)
    with ThreadPoolExecutor(max_workers=12) as ex:
        outs = list(ex.map(lambda ih: c29_history(ih[1], ih[0]), enumerate(hists)))
    lines = []
    for h, (log, sched, alive) in zip(hists, outs):
        evs = ' '.join('(%s %d %s)' % ('open' if i == 0 else 'change', i + 1, C29_CLASS[c]) for i, (c, _) in enumerate(h))
        lines.append('(diag (%s) (%s) (%s) %d)' % (evs, ' '.join(map(str, sched)), ' '.join('(%d %s)' % (v, d) for v, d in log), 1 if alive else 0))
    drv_lines(pid, lines, res, 'histories')
    res['samples'] = lines[:2] + [l for l in lines if 'TBgErr' in l][:1]
    return res


PAROL_BIN = os.path.join(lsp.VERIF, 'target', 'ls', 'debug', 'parol')


def build_parol_bin():
    ok, out = cl.build_repo_bin(['parol'], 'ls')
    if not ok:
        raise cl.MachineryError('parol binary build failed:\n' + out[-3000:])


def tie_grammars(rng, n):
    """Grammars with prefix-group ties (several equally large groups of alternatives sharing a first symbol)."""
    out = []
    out.append(('tie-witness', '%start A\n%%\nA: "a" "b" | "a" "c" | "d" "e" | "d" "f";\n'))
    out.append(('tie-witness-2', '%start S\n%%\nS: A B;\nA: "a" "b" | "a" "c" | "d" "e" | "d" "f" | "g";\nB: "x" A | "x" B | "y" A | "y" "z";\n'))
    # ties between groups that only differ AFTER a common prefix (length 1 and 2)
    out.append(('tie-witness-3', '%start A\n%%\nA: "x" "a" "b" | "x" "a" "c" | "x" "d" "e" | "x" "d" "f";\n'))
    out.append(('tie-witness-4', '%start A\n%%\nA: "x" "y" "a" "b" | "x" "y" "a" "c" | "x" "y" "d" "e" | "x" "y" "d" "f" | "q";\n'))
    for i in range(n):
        nts = ['S', 'T', 'U'][:rng.randint(1, 3)]
        s = '%start S\n%%\n'
        for nt in nts:
            heads = rng.sample(['"a"', '"b"', '"c"', '"d"', "'e'"], rng.randint(2, 4))
            common = ' '.join(rng.sample(['"p"', '"q"', '"r"'], rng.choice([0, 0, 1, 2])))
            alts = []
            for h in heads:
                for j in range(rng.randint(1, 3)):
                    tail = ' '.join(rng.choice(['"x"', '"y"', '"z"', rng.choice(nts)]) for _ in range(rng.randint(1, 2)))
                    alts.append((common + ' ' if common else '') + h + ' ' + tail + ' "%d"' % j)
            rng.shuffle(alts)
            s += nt + ': ' + ' | '.join(dict.fromkeys(alts)) + ';\n'
        out.append(('tie-gen-%d' % i, s))
    return out


def c24(pid, spec, tier, seed):
    """Byte-identical generated files from several separate parol processes."""
    build_parol_bin()
    res = new_result()
    rng = random.Random(seed ^ 0x24)
    wdir = os.path.join(cl.WORK, pid, 'gen')
    shutil_rm(wdir)
    os.makedirs(wdir)
    gs = tie_grammars(rng, 40 if tier == 'thorough' else 10)
    cs = corpus()
    rng.shuffle(cs)
    gs += cs if tier == 'thorough' else cs[:25]
    nproc = 12 if tier == 'thorough' else 5
    from concurrent.futures import ThreadPoolExecutor

    def one(job):
        gi, (name, text), r = job
        d = os.path.join(wdir, 'g%d_r%d' % (gi, r))
        os.makedirs(d)
        par = os.path.join(d, 'g.par')
        open(par, 'w').write(text)
        cmd = [PAROL_BIN, '-f', par, '-p', os.path.join(d, 'parser.rs'), '-a', os.path.join(d, 'trait.rs'), '-t', 'Gr', '-m', 'gr',
               '-e', os.path.join(d, 'exp.par'), '-k', '3']
        p = subprocess.run(cmd, stdout=subprocess.PIPE, stderr=subprocess.STDOUT, text=True, timeout=300)
        files = {}
        for fn in ('parser.rs', 'trait.rs', 'exp.par'):
            fp = os.path.join(d, fn)
            files[fn] = open(fp, 'rb').read() if os.path.exists(fp) else None
        return gi, r, p.returncode, files

    jobs = [(gi, g, r) for gi, g in enumerate(gs) for r in range(nproc)]
    with ThreadPoolExecutor(max_workers=cl.NCPU) as ex:
        outs = list(ex.map(one, jobs))
    by = {}
    for gi, r, rc, files in outs:
        by.setdefault(gi, []).append((r, rc, files))
    for gi, (name, text) in enumerate(gs):
        runs = sorted(by[gi])
        res['evaluations'] += 1
        case = json.dumps(dict(name=name, text=text, processes=nproc))
        rcs = set(rc for _, rc, _ in runs)
        if all(f is None for _, _, fs in runs for f in fs.values()):
            res['skipped'] += 1
            res['skip_reasons']['parol rejects the grammar'] = res['skip_reasons'].get('parol rejects the grammar', 0) + 1
            continue
        diff = [fn for fn in ('parser.rs', 'trait.rs', 'exp.par') if len(set(fs[fn] for _, _, fs in runs)) > 1]
        if len(rcs) > 1:
            fail(res, 'verdict-differs-between-processes', 'exit codes %s' % sorted(rcs), case)
        elif diff:
            fail(res, 'output-differs:' + '+'.join(diff), 'generated files differ between processes: %s' % diff, case)
        else:
            res['ok'] += 1
            if name.startswith('tie') or 'Suffix' in (runs[0][2]['exp.par'] or b'').decode('utf-8', 'replace'):
                res['nontrivial'].add(hashlib.md5(case.encode()).digest())
            if len(res['samples']) < 2:
                res['samples'].append(dict(name=name, text=text[:200], processes=nproc))
    shutil_rm(wdir)
    return res


def shutil_rm(d):
    import shutil
    shutil.rmtree(d, ignore_errors=True)


def gen_annotated(rng):
    """PAR texts exercising declarations and annotations for the render round trip."""
    s = '%start S\n'
    if rng.random() < 0.4: s += '%%title "T %d"\n' % rng.randint(0, 9)
    if rng.random() < 0.4: s += '%comment "C"\n'
    if rng.random() < 0.3: s += "%grammar_type 'LALR(1)'\n"
    if rng.random() < 0.3: s += '%user_type Num = crate::types::Num\n'
    if rng.random() < 0.2: s += '%nt_type B = crate::types::Bee\n'
    if rng.random() < 0.2: s += '%t_type crate::types::Tok\n'
    if rng.random() < 0.4: s += "%line_comment '//'\n"
    if rng.random() < 0.3: s += "%block_comment '/*' '*/'\n"
    if rng.random() < 0.3: s += '%auto_newline_off\n'
    if rng.random() < 0.2: s += '%auto_ws_off\n'
    if rng.random() < 0.3: s += '%allow_unmatched\n'
    sc = rng.random() < 0.5
    on = sc and rng.random() < 0.6
    skip = rng.random() < 0.3
    if skip: s += '%skip Ws\n'
    if on: s += '%on Quote %enter Str\n'
    if sc:
        s += '%scanner Str {\n'
        if rng.random() < 0.5: s += '    %auto_newline_off\n'
        if rng.random() < 0.5: s += '    %auto_ws_off\n'
        if rng.random() < 0.4: s += '    %allow_unmatched\n'
        if on: s += '    %on Quote %' + rng.choice(['enter INITIAL', 'pop']) + '\n'
        s += '}\n'
    s += '%%\n'
    t = ['"a"', "'b'", '/c+/', '"d"^', "'e'@el", '"n": Num' if 'Num =' in s else '"n"', '"x" ?= "y"', "'z' ?! /q/", '"x" ?= "y"^', "'z' ?! /q/^", '"p" ?= \'q+\'', "'if' ?! /[a-z]+/@kw", '/r/ ?= "s"^']
    s += 'S: ' + rng.choice(t) + ' B' + rng.choice(['', '^', '@bee']) + (' Quote' if on else '') + ' { ' + rng.choice(t) + ' } [ B ] ( ' + rng.choice(t) + ' | B );\n'
    s += 'B: ' + rng.choice(t) + (' | <Str> "in"' if sc else '') + (' | <INITIAL, Str> "both"' if sc and rng.random() < 0.5 else '') + ' | ;\n'
    if on: s += 'Quote: <INITIAL, Str> "\\u{22}";\n'
    if skip: s += 'Ws: /[ \\t]+/;\n'
    return s


def c25(pid, spec, tier, seed):
    """render -> parse round trip of grammar configurations, through parol's real functions."""
    res = new_result()
    rng = random.Random(seed ^ 0x25)
    wdir = os.path.join(cl.WORK, pid)
    cs = corpus()
    rng.shuffle(cs)
    texts = [t for _, t in (cs if tier == 'thorough' else cs[:80])]
    texts += [gen_annotated(rng) for _ in range(3000 if tier == 'thorough' else 300)]
    texts += [gen_grammar(rng, comments=False) for _ in range(1000 if tier == 'thorough' else 100)]
    path = os.path.join(wdir, 'rt.jsonl')
    open(path, 'w').write('\n'.join(json.dumps(t) for t in texts) + '\n')
    p = subprocess.run([cl.PV, 'roundtrip', path], stdout=subprocess.PIPE, stderr=subprocess.DEVNULL, text=True, env=cl.ENV, timeout=3000)
    outs = [json.loads(l) for l in p.stdout.split('\n') if l.startswith('{')]
    if len(outs) != len(texts):
        raise cl.MachineryError('pv roundtrip returned %d results for %d texts' % (len(outs), len(texts)))
    for t, o in zip(texts, outs):
        res['evaluations'] += 1
        if not o['valid']:
            res['skipped'] += 1
            res['skip_reasons']['text rejected by parol'] = res['skip_reasons'].get('text rejected by parol', 0) + 1
            continue
        if o.get('panic'):
            fail(res, 'panic', 'render/read panicked', json.dumps(dict(text=t)))
            continue
        bad = [r for r in o['results'] if r['status'] != 'same']
        if bad:
            r = bad[0]
            key = ('roundtrip-differs:' + '+'.join(r.get('fields', []))) if r['status'] == 'differs' else r['status']
            fail(res, key, '%s grammar: %s %s' % (r['variant'], r['status'], r.get('detail', r.get('fields', ''))), json.dumps(dict(text=t, rendered=r.get('rendered'))))
        else:
            res['ok'] += 1
            if any(d in t for d in ('%scanner', '%allow_unmatched', '@', '^', '%auto', '%skip', '%on', ': ')):
                res['nontrivial'].add(hashlib.md5(t.encode()).digest())
                if len(res['samples']) < 2:
                    res['samples'].append(t[:300])
            res['dist']['variants-%d' % len(o['results'])] = res['dist'].get('variants-%d' % len(o['results']), 0) + 1
    return res


def ident_grammars(rng, n):
    out = [
        ('collide-terminals', '%start S\n%%\nS: "+" | "\\+" | \'+\' | "plus" | /\\+\\+/ | "Plus";\n'),
        ('numeric-suffixes', '%start S\n%%\nS: A | A1 | A2 { A } [ A1 ];\nA: "a";\nA1: "b";\nA2: "c" { "d" };\n'),
        ('case-variants', '%start start\n%%\nstart: my_nt MyNt My_Nt;\nmy_nt: "a";\nMyNt: "b";\nMy_Nt: "c";\n'),
        ('keywords', '%start S\n%%\nS: type match fn_ r#x;\ntype: "t";\nmatch: "m";\nfn_: "f";\n'),
        ('self-nt', '%start S\n%%\nS: self;\nself: "s";\n'),
        ('Self-nt', '%start S\n%%\nS: Self;\nSelf: "s";\n'),
        ('crate-nt', '%start S\n%%\nS: crate super;\ncrate: "c";\nsuper: "s";\n'),
        ('underscore-nt', '%start S\n%%\nS: _ "x";\n_: "u";\n'),
        ('blank-terminal', '%start S\n%%\nS: " " "  " "x";\n'),
        ('member-names', '%start S\n%%\nS: A@x A@x2 "a"@x3 [ A@y ] { A@z };\nA: "a"@a "a"@a2;\n'),
        ('same-member', '%start S\n%%\nS: A@x "b"@x;\nA: "a";\n'),
        # a numerically suffixed name BEFORE the clashing base name (the numbering must still avoid it)
        ('suffix-before-base-terminals', '%start S\n%%\nS: "a0" "a" "A" | "b1" "b" "B" "B";\n'),
        ('suffix-before-base-members', '%start S\n%%\nS: A0 A A | A1 A0 A A A;\nA0: "x";\nA1: "z";\nA: "y";\n'),
        ('suffix-before-base-helpers', '%start S\n%%\nS: SOpt0 [ "a" ] [ "b" ] | SList0 { "c" } { "d" };\nSOpt0: "o";\nSList0: "l";\n'),
    ]
    specials = ['"+"', '"-"', '"\\*"', "'*'", '"=="', '"="', '"!"', '"<="', '"<"', '","', '";"', '"a"', '"A"', '"a1"', '"a0"', '"A0"', '"_"', '"%"', '"#"', '"~"', '"\\|"', '"&&"', '"plus0"', '"Plus"', '"+"']
    for i in range(n):
        ts = rng.sample(specials, rng.randint(2, 7))
        nts = rng.sample(['S', 'Item', 'item', 'Item1', 'Item0', 'List', 'ItemList', 'ItemOpt', 'ItemOpt0', 'Type', 'type_', 'Box1'], rng.randint(1, 4))
        if rng.random() < 0.5:
            nts.sort(reverse=True)      # suffixed names first
        if 'S' not in nts:
            nts[0] = 'S'
        s = '%start S\n%%\n'
        for nt in nts:
            s += nt + ': ' + ' | '.join(' '.join(rng.choice(ts + [x for x in nts]) + rng.choice(['', '', '^', '@m', '@m1']) for _ in range(rng.randint(1, 3))) for _ in range(rng.randint(1, 3))) + (' | ' + rng.choice(ts) if True else '') + ';\n'
        out.append(('idents-gen-%d' % i, s))
    return out


def c33(pid, spec, tier, seed):
    """Identifiers in the REAL generated sources: valid Rust (syn parses the files) and distinct where required."""
    build_parol_bin()
    res = new_result()
    rng = random.Random(seed ^ 0x33)
    wdir = os.path.join(cl.WORK, pid, 'gen')
    shutil_rm(wdir)
    os.makedirs(wdir)
    gs = ident_grammars(rng, 300 if tier == 'thorough' else 40)
    cs = corpus()
    rng.shuffle(cs)
    gs += cs if tier == 'thorough' else cs[:20]
    from concurrent.futures import ThreadPoolExecutor
    import re

    def one(job):
        gi, (name, text) = job
        d = os.path.join(wdir, 'g%d' % gi)
        os.makedirs(d)
        par = os.path.join(d, 'g.par')
        open(par, 'w').write(text)
        cmd = [PAROL_BIN, '-f', par, '-p', os.path.join(d, 'parser.rs'), '-a', os.path.join(d, 'trait.rs'), '-t', 'Gr', '-m', 'gr', '-k', '3']
        p = subprocess.run(cmd, stdout=subprocess.PIPE, stderr=subprocess.STDOUT, text=True, timeout=300)
        files = [os.path.join(d, f) for f in ('parser.rs', 'trait.rs') if os.path.exists(os.path.join(d, f))]
        if len(files) < 2:
            return gi, None, None
        q = subprocess.run([cl.PV, 'idents'] + files, stdout=subprocess.PIPE, stderr=subprocess.DEVNULL, text=True, env=cl.ENV, timeout=300)
        rs = [json.loads(l) for l in q.stdout.split('\n') if l.startswith('{')]
        src = open(files[0]).read()
        tables = {}
        for tab in ('TERMINAL_NAMES', 'NON_TERMINALS'):
            m = re.search(r'pub const %s[^=]*= &\[(.*?)\];' % tab, src, re.S)
            tables[tab] = re.findall(r'"((?:\\.|[^"])*)"', m.group(1)) if m else []
        return gi, rs, tables

    with ThreadPoolExecutor(max_workers=cl.NCPU) as ex:
        outs = list(ex.map(one, enumerate(gs)))
    for (name, text), (gi, rs, tables) in zip(gs, outs):
        res['evaluations'] += 1
        case = json.dumps(dict(name=name, text=text))
        if rs is None:
            res['skipped'] += 1
            res['skip_reasons']['parol rejects the grammar'] = res['skip_reasons'].get('parol rejects the grammar', 0) + 1
            continue
        bad = [r for r in rs if not r.get('ok')]
        dup = [d for r in rs if r.get('ok') for d in r['duplicates']]
        tdup = [t for tab in tables.values() for t in set(tab) if tab.count(t) > 1]
        import re as _re
        if bad:
            ctx = bad[0].get('context', '')
            m = _re.search(r'(r#(?:self|Self|crate|super)\b|struct\s+Self\b|struct\s+<|\b_\s*[:(,])', ctx)
            cls = 'unknown'
            if m:
                g = m.group(1)
                cls = 'raw-keyword' if g.startswith('r#') else ('Self-type' if 'Self' in g else ('empty-type-name' if '<' in g else 'underscore-name'))
            fail(res, 'invalid-rust-identifier:' + cls, 'syn cannot parse the generated source: %s near %r' % (bad[0].get('error'), ctx[:60]), case)
        elif tdup:
            fail(res, 'duplicate-in-name-table', 'duplicate entries in TERMINAL_NAMES / NON_TERMINALS: %s' % tdup[:4], case)
        elif dup:
            fail(res, 'duplicate-identifier', 'names that must be distinct coincide: %s' % dup[:4], case)
        else:
            res['ok'] += 1
            res['nontrivial'].add(hashlib.md5(case.encode()).digest())
            if len(res['samples']) < 2:
                res['samples'].append(dict(name=name, text=text[:200], names_checked=sum(r['names'] for r in rs)))
    shutil_rm(wdir)
    return res
