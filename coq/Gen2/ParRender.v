(** * Rendering a scanner configuration as PAR text and reading it back (C25, directive part)

    Rust code modelled (crates/parol/src):

    - conversions/par/grammar_to_par.rs [render_scanner_config_string] (at HEAD): prints, in this
      order, one [%line_comment] per line comment, one [%block_comment] per block comment,
      [%auto_newline_off] if [!auto_newline], [%auto_ws_off] if [!auto_ws], one [%skip a, b, ..]
      with the skip names sorted and deduplicated (if there are any), and the [%on a, b %enter X]
      lines: [group_by(&transitions, |(_, v)| v.clone())], the names of each group sorted, the
      formatted lines sorted.  NOTHING is printed for [allow_unmatched] in the committed HEAD
      (df4edf4): DEFECT D4 is real ([scanner_cfg_roundtrip_refuted],
      [render_cfg_loses_allow_unmatched]).  (While this file was written an UNCOMMITTED change
      appeared in the working tree of /repo that prints [%allow_unmatched] right after
      [%auto_ws_off]: exactly [render_cfg_fixed].)
    - parser/parol.par, [ScannerDirectives]: the seven directives ([directive] below; the
      identifier lists of [%skip] and [%on] are non-empty: [directive_ok]).
    - parser/parol_grammar.rs [process_scanner_directive] / [TryFrom<&ScannerState>]: start from
      [ScannerConfig::default()] (no comments, [auto_newline_off = auto_ws_off = allow_unmatched
      = false], no skips, no transitions); comments are pushed, the flags set, [add_skips] pushes
      every identifier, [add_transitions] inserts every identifier of the list into
      [BTreeMap<Token, ScannerStateSwitch>].  The key is the whole [Token] (text, then token type,
      then location), so an identifier that occurs twice gives TWO entries, ordered by text and
      then by position in the file: insertion into a list sorted by name, AFTER equal names
      ([map_insert]).
    - parser/to_grammar_config.rs: [auto_newline = !auto_newline_off], [auto_ws = !auto_ws_off],
      skip names -> terminal indices, [sort(); dedup()]; transitions -> (index, switch),
      [sort_by_key(index)].

    ABSTRACTION.  Directives are abstract tokens (strings are not rendered to characters; whether
    a comment string survives quoting is the literal-level part of C25, not treated here).  The
    generator's [ScannerConfig] holds terminal INDICES in [skip_tokens] and [transitions]; the
    renderer maps them to the name of their primary non-terminal and the reader maps the names
    back.  This model identifies a terminal with that name (i.e. it assumes that this resolution
    is a bijection on the terminals involved) and therefore orders [skip] and [transitions] by
    NAME where the Rust code orders them by index: a canonical [scanner_cfg] has both strictly
    sorted by name ([cfg_wf]); a caller comparing real configurations has to compare these two
    fields as sets.  [ScannerStateSwitch] carries a source [Location] that takes part in its
    [Eq]/[Hash]; it is dropped here, so [group_by] may form larger groups than the Rust code does
    (which keeps the pairs of different source directives apart).  This only changes how the
    (name, switch) pairs are distributed over [%on] lines: the proof of the round trip goes
    through the multiset of pairs ([ons_pairs]) and does not depend on the grouping or the order
    of the lines. *)
From Coq Require Import String Ascii List Bool Arith Lia Permutation Sorted OrdersEx RelationClasses.
Import ListNotations.
Local Open Scope string_scope.

(** ** Configurations and directives *)
Inductive switch := Sw_Enter (s : string) | Sw_Push (s : string) | Sw_Pop.

Record scanner_cfg := mk_cfg {
  line_comments : list string;
  block_comments : list (string * string);
  auto_newline : bool;
  auto_ws : bool;
  allow_unmatched : bool;
  skip : list string;                       (* names, strictly sorted in a canonical cfg *)
  transitions : list (string * switch)      (* (name, switch), strictly sorted by name *)
}.

Inductive directive :=
| D_LineComment (c : string)
| D_BlockComment (s e : string)
| D_AutoNewlineOff
| D_AutoWsOff
| D_Skip (names : list string)
| D_On (names : list string) (sw : switch)
| D_AllowUnmatched.

(** The identifier lists of the grammar are non-empty. *)
Definition directive_ok (d : directive) : bool :=
  match d with
  | D_Skip [] | D_On [] _ => false
  | _ => true
  end.

Definition switch_eqb (a b : switch) : bool :=
  match a, b with
  | Sw_Enter x, Sw_Enter y | Sw_Push x, Sw_Push y => String.eqb x y
  | Sw_Pop, Sw_Pop => true
  | _, _ => false
  end.

(** ** Sorting ([slice::sort] on [String]s is byte-lexicographic = [String.compare]) *)
Section Sort.
  Context {A : Type} (le : A -> A -> bool).
  Fixpoint insert_by (x : A) (l : list A) : list A :=
    match l with
    | [] => [x]
    | y :: l' => if le x y then x :: l else y :: insert_by x l'
    end.
  Fixpoint isort_by (l : list A) : list A :=
    match l with
    | [] => []
    | x :: l' => insert_by x (isort_by l')
    end.
End Sort.

Definition sort_names : list string -> list string := isort_by String.leb.

(** [Vec::dedup]: removes consecutive repetitions. *)
Fixpoint dedup (l : list string) : list string :=
  match l with
  | x :: (y :: _) as t => if String.eqb x y then dedup t else x :: dedup t
  | _ => l
  end.

(** ** Rendering *)
(** [group_by] on the switch: the groups in the order of the first occurrence of their key, the
    members in their order (utils/mod.rs at HEAD; before commit df4edf4 the order of the groups
    was that of [HashMap::drain]).  Both orders are immaterial here: names and lines are sorted
    afterwards. *)
Fixpoint gb_add (n : string) (sw : switch) (g : list (switch * list string)) : list (switch * list string) :=
  match g with
  | [] => [(sw, [n])]
  | (sw', ns) :: g' => if switch_eqb sw sw' then (sw', (ns ++ [n])%list) :: g' else (sw', ns) :: gb_add n sw g'
  end.

Definition group_by_switch (ts : list (string * switch)) : list (switch * list string) :=
  fold_left (fun g t => gb_add (fst t) (snd t) g) ts [].

(** [impl Display for ScannerStateSwitch]. *)
Definition switch_text (sw : switch) : string :=
  match sw with
  | Sw_Enter s => "enter " ++ s
  | Sw_Push s => "push " ++ s
  | Sw_Pop => "pop"
  end.

Definition newline : string := String (ascii_of_nat 10) "".

(** [format!("{}%on {} %{}\n", indent, primary_nts.join(", "), scanner_switch)]
    (the indent is the same for all lines of one configuration). *)
Definition on_line (names : list string) (sw : switch) : string :=
  "%on " ++ String.concat ", " names ++ " %" ++ switch_text sw ++ newline.

Definition line_le (a b : string * directive) : bool := String.leb (fst a) (fst b).

Definition render_ons (ts : list (string * switch)) : list directive :=
  map snd (isort_by line_le
             (map (fun g => let ns := sort_names (snd g) in (on_line ns (fst g), D_On ns (fst g)))
                  (group_by_switch ts))).

Definition render_skip (sk : list string) : list directive :=
  match dedup (sort_names sk) with
  | [] => []
  | names => [D_Skip names]
  end.

Definition render_comments (c : scanner_cfg) : list directive :=
  map D_LineComment (line_comments c) ++
  map (fun se => D_BlockComment (fst se) (snd se)) (block_comments c).

Definition render_flags (c : scanner_cfg) : list directive :=
  (if auto_newline c then [] else [D_AutoNewlineOff]) ++
  (if auto_ws c then [] else [D_AutoWsOff]).

(** What the Rust code prints at HEAD. *)
Definition render_cfg (c : scanner_cfg) : list directive :=
  render_comments c ++ render_flags c ++ render_skip (skip c) ++ render_ons (transitions c).

(** The repair: print [%allow_unmatched] too. *)
Definition render_cfg_fixed (c : scanner_cfg) : list directive :=
  render_comments c ++ render_flags c ++
  (if allow_unmatched c then [D_AllowUnmatched] else []) ++
  render_skip (skip c) ++ render_ons (transitions c).

(** ** Reading *)
Definition default_cfg : scanner_cfg := mk_cfg [] [] true true false [] [].

(** [BTreeMap::insert] of a fresh [Token] key: after the entries whose name is not greater. *)
Fixpoint map_insert (p : string * switch) (m : list (string * switch)) : list (string * switch) :=
  match m with
  | [] => [p]
  | q :: m' => if String.ltb (fst p) (fst q) then p :: m else q :: map_insert p m'
  end.

Definition read_step (a : scanner_cfg) (d : directive) : scanner_cfg :=
  match a with
  | mk_cfg lc bc nl ws au sk tr =>
      match d with
      | D_LineComment x => mk_cfg (lc ++ [x]) bc nl ws au sk tr
      | D_BlockComment s e => mk_cfg lc (bc ++ [(s, e)]) nl ws au sk tr
      | D_AutoNewlineOff => mk_cfg lc bc false ws au sk tr
      | D_AutoWsOff => mk_cfg lc bc nl false au sk tr
      | D_Skip names => mk_cfg lc bc nl ws au (sk ++ names) tr
      | D_On names sw =>
          mk_cfg lc bc nl ws au sk (fold_left (fun m n => map_insert (n, sw) m) names tr)
      | D_AllowUnmatched => mk_cfg lc bc nl ws true sk tr
      end
  end.

(** [to_grammar_config]: [skip_tokens.sort(); skip_tokens.dedup()]. *)
Definition finish (a : scanner_cfg) : scanner_cfg :=
  match a with
  | mk_cfg lc bc nl ws au sk tr => mk_cfg lc bc nl ws au (dedup (sort_names sk)) tr
  end.

Definition read_cfg (ds : list directive) : scanner_cfg :=
  finish (fold_left read_step ds default_cfg).

(** ** Well-formedness (canonical form), executable *)
Fixpoint strictly_sorted (l : list string) : bool :=
  match l with
  | x :: (y :: _) as t => String.ltb x y && strictly_sorted t
  | _ => true
  end.

Definition cfg_wf (c : scanner_cfg) : bool :=
  strictly_sorted (skip c) && strictly_sorted (map fst (transitions c)).

(** ** The order on strings *)
Lemma cmp_refl a : String.compare a a = Eq.
Proof.
  pose proof (String.compare_antisym a a) as H. destruct (String.compare a a); cbn in H; congruence.
Qed.

Lemma ltb_lt a b : String.ltb a b = true <-> String.compare a b = Lt.
Proof. unfold String.ltb. destruct (String.compare a b); split; congruence. Qed.

Lemma leb_refl a : String.leb a a = true.
Proof. unfold String.leb. rewrite cmp_refl. reflexivity. Qed.

Lemma ltb_irrefl a : String.ltb a a = false.
Proof. unfold String.ltb. rewrite cmp_refl. reflexivity. Qed.

Lemma ltb_trans a b c : String.ltb a b = true -> String.ltb b c = true -> String.ltb a c = true.
Proof.
  rewrite !ltb_lt. intros H1 H2.
  exact (@StrictOrder_Transitive _ _ String_as_OT.lt_strorder a b c H1 H2).
Qed.

Lemma ltb_leb a b : String.ltb a b = true -> String.leb a b = true.
Proof. unfold String.ltb, String.leb. destruct (String.compare a b); congruence. Qed.

Lemma ltb_false_leb a b : String.ltb a b = false -> String.leb b a = true.
Proof.
  unfold String.ltb, String.leb. rewrite (String.compare_antisym b a).
  destruct (String.compare a b); cbn; congruence.
Qed.

Lemma leb_cases a b : String.leb a b = true <-> a = b \/ String.ltb a b = true.
Proof.
  unfold String.leb, String.ltb. destruct (String.compare a b) eqn:E; split; intros H; try congruence.
  - left. apply String.compare_eq_iff. exact E.
  - right. reflexivity.
  - destruct H as [->|H]; [rewrite cmp_refl in E|]; congruence.
Qed.

Lemma leb_trans a b c : String.leb a b = true -> String.leb b c = true -> String.leb a c = true.
Proof.
  intros H1 H2. apply leb_cases in H1, H2. apply leb_cases.
  destruct H1 as [E1|H1]; [subst b; exact H2|]. destruct H2 as [E2|H2]; [subst c; right; exact H1|].
  right. exact (ltb_trans _ _ _ H1 H2).
Qed.

Lemma leb_antisym a b : String.leb a b = true -> String.leb b a = true -> a = b.
Proof.
  intros H1 H2. apply leb_cases in H1, H2. destruct H1 as [E1|H1]; [exact E1|].
  destruct H2 as [E2|H2]; [symmetry; exact E2|].
  pose proof (ltb_trans _ _ _ H1 H2) as H. rewrite ltb_irrefl in H. discriminate.
Qed.

Lemma ltb_neq a b : String.ltb a b = true -> String.eqb a b = false.
Proof.
  intros H. apply String.eqb_neq. intros ->. rewrite ltb_irrefl in H. discriminate.
Qed.

(** ** Sorting facts *)
Lemma insert_by_perm {A} (le : A -> A -> bool) x l : Permutation (x :: l) (insert_by le x l).
Proof.
  induction l as [|y l IH]; cbn [insert_by]; [apply Permutation_refl|].
  destruct (le x y); [apply Permutation_refl|].
  eapply perm_trans; [apply perm_swap|]. apply perm_skip. exact IH.
Qed.

Lemma isort_by_perm {A} (le : A -> A -> bool) l : Permutation l (isort_by le l).
Proof.
  induction l as [|x l IH]; cbn [isort_by]; [constructor|].
  eapply perm_trans; [apply perm_skip; exact IH|apply insert_by_perm].
Qed.

(** Insertion sort leaves a list alone whose neighbours are in order. *)
Fixpoint chain {A} (le : A -> A -> bool) (l : list A) : bool :=
  match l with
  | x :: (y :: _) as t => le x y && chain le t
  | _ => true
  end.

Lemma isort_by_chain {A} (le : A -> A -> bool) l : chain le l = true -> isort_by le l = l.
Proof.
  induction l as [|x l IH]; intros H; [reflexivity|]. cbn [isort_by].
  destruct l as [|y l]; [reflexivity|]. cbn [chain] in H. apply andb_true_iff in H as [H1 H2].
  rewrite (IH H2). cbn [insert_by]. rewrite H1. reflexivity.
Qed.

Lemma strictly_sorted_chain l : strictly_sorted l = true -> chain String.leb l = true.
Proof.
  induction l as [|x l IH]; intros H; [reflexivity|]. destruct l as [|y l]; [reflexivity|].
  cbn [strictly_sorted chain] in *. apply andb_true_iff in H as [H1 H2].
  rewrite (ltb_leb _ _ H1). exact (IH H2).
Qed.

Lemma dedup_strict l : strictly_sorted l = true -> dedup l = l.
Proof.
  induction l as [|x l IH]; intros H; [reflexivity|]. destruct l as [|y l]; [reflexivity|].
  cbn [strictly_sorted] in H. apply andb_true_iff in H as [H1 H2].
  change (dedup (x :: y :: l)) with (if String.eqb x y then dedup (y :: l) else x :: dedup (y :: l)).
  rewrite (ltb_neq _ _ H1), (IH H2). reflexivity.
Qed.

(** Sorting and deduplicating a canonical name list changes nothing. *)
Lemma canon_names_id l : strictly_sorted l = true -> dedup (sort_names l) = l.
Proof.
  intros H. unfold sort_names. rewrite (isort_by_chain _ _ (strictly_sorted_chain _ H)).
  apply dedup_strict. exact H.
Qed.

Lemma strictly_sorted_strong l :
  strictly_sorted l = true -> StronglySorted (fun a b => String.ltb a b = true) l.
Proof.
  intros H. apply Sorted_StronglySorted; [intros a b c; apply ltb_trans|].
  induction l as [|x l IH]; [constructor|]. destruct l as [|y l]; [repeat constructor|].
  cbn [strictly_sorted] in H. apply andb_true_iff in H as [H1 H2].
  constructor; [exact (IH H2)|constructor; exact H1].
Qed.

Lemma strictly_sorted_NoDup l : strictly_sorted l = true -> NoDup l.
Proof.
  intros H. apply strictly_sorted_strong in H.
  induction H as [|x l Hs IH Hall]; constructor; [|exact IH].
  intros Hin. rewrite Forall_forall in Hall. specialize (Hall x Hin).
  rewrite ltb_irrefl in Hall. discriminate.
Qed.

(** ** The map of transitions *)
Definition kle (a b : string * switch) : Prop := String.leb (fst a) (fst b) = true.

Lemma map_insert_perm p m : Permutation (p :: m) (map_insert p m).
Proof.
  induction m as [|q m IH]; cbn [map_insert]; [apply Permutation_refl|].
  destruct (String.ltb (fst p) (fst q)); [apply Permutation_refl|].
  eapply perm_trans; [apply perm_swap|]. apply perm_skip. exact IH.
Qed.

Lemma map_insert_sorted p m : StronglySorted kle m -> StronglySorted kle (map_insert p m).
Proof.
  induction 1 as [|q m Hs IH Hall]; cbn [map_insert]; [repeat constructor|].
  destruct (String.ltb (fst p) (fst q)) eqn:E.
  - constructor; [constructor; assumption|]. constructor; [exact (ltb_leb _ _ E)|].
    rewrite Forall_forall in *. intros x Hx. unfold kle in *.
    exact (leb_trans _ _ _ (ltb_leb _ _ E) (Hall x Hx)).
  - constructor; [exact IH|]. rewrite Forall_forall in *. intros x Hx.
    apply (Permutation_in _ (Permutation_sym (map_insert_perm p m))) in Hx.
    destruct Hx as [<-|Hx]; [exact (ltb_false_leb _ _ E)|exact (Hall x Hx)].
Qed.

Definition insert_all (ps : list (string * switch)) (m : list (string * switch)) :=
  fold_left (fun m p => map_insert p m) ps m.

Lemma insert_all_spec ps : forall m, StronglySorted kle m ->
  StronglySorted kle (insert_all ps m) /\ Permutation (ps ++ m) (insert_all ps m).
Proof.
  induction ps as [|p ps IH]; intros m Hm; cbn [insert_all fold_left app].
  - split; [exact Hm|apply Permutation_refl].
  - destruct (IH (map_insert p m) (map_insert_sorted p m Hm)) as [H1 H2]. split; [exact H1|].
    eapply perm_trans; [|exact H2]. eapply perm_trans; [apply Permutation_middle|].
    apply Permutation_app_head. apply map_insert_perm.
Qed.

(** Two lists sorted by name with the same entries are equal when the names are distinct. *)
Lemma sorted_perm_unique (l1 : list (string * switch)) : forall l2,
  StronglySorted kle l1 -> StronglySorted kle l2 -> NoDup (map fst l2) -> Permutation l1 l2 -> l1 = l2.
Proof.
  induction l1 as [|a l1 IH]; intros l2 H1 H2 Hnd Hp.
  - apply Permutation_nil in Hp. congruence.
  - destruct l2 as [|b l2]; [apply Permutation_sym, Permutation_nil in Hp; discriminate|].
    inversion H1 as [|x1 y1 Hs1 Hall1]; subst. inversion H2 as [|x2 y2 Hs2 Hall2]; subst.
    rewrite Forall_forall in Hall1, Hall2. cbn [map] in Hnd. inversion Hnd as [|k ks Hk Hnd']; subst.
    assert (E : a = b).
    { assert (Ha : In a (b :: l2)) by (apply (Permutation_in _ Hp); left; reflexivity).
      destruct Ha as [Ha|Ha]; [congruence|].
      assert (Hb : In b (a :: l1)) by (apply (Permutation_in _ (Permutation_sym Hp)); left; reflexivity).
      destruct Hb as [Hb|Hb]; [congruence|].
      pose proof (leb_antisym _ _ (Hall1 b Hb) (Hall2 a Ha)) as Ek.
      exfalso. apply Hk. rewrite <- Ek. apply in_map. exact Ha. }
    subst b. f_equal. apply IH; try assumption. exact (Permutation_cons_inv Hp).
Qed.

(** ** The (name, switch) pairs of a list of [%on] directives *)
Definition on_pairs (d : directive) : list (string * switch) :=
  match d with
  | D_On names sw => map (fun n => (n, sw)) names
  | _ => []
  end.

Definition ons_pairs (ds : list directive) : list (string * switch) := flat_map on_pairs ds.

Definition is_on (d : directive) : bool := match d with D_On _ _ => true | _ => false end.

Lemma flat_map_perm {A B} (f : A -> list B) l l' :
  Permutation l l' -> Permutation (flat_map f l) (flat_map f l').
Proof.
  induction 1 as [|x l l' Hp IH|x y l|l l' l'' Hp1 IH1 Hp2 IH2]; cbn [flat_map].
  - constructor.
  - apply Permutation_app_head. exact IH.
  - rewrite !app_assoc. apply Permutation_app_tail. apply Permutation_app_comm.
  - exact (perm_trans IH1 IH2).
Qed.

Lemma flat_map_perm_ext {A B} (f g : A -> list B) l :
  (forall x, Permutation (f x) (g x)) -> Permutation (flat_map f l) (flat_map g l).
Proof.
  intros H. induction l as [|x l IH]; cbn [flat_map]; [constructor|].
  apply Permutation_app; [apply H|exact IH].
Qed.

Lemma flat_map_map {A B C} (g : A -> B) (f : B -> list C) l :
  flat_map f (map g l) = flat_map (fun x => f (g x)) l.
Proof. induction l as [|x l IH]; cbn [map flat_map]; [reflexivity|]. rewrite IH. reflexivity. Qed.

Definition group_pairs (g : switch * list string) : list (string * switch) :=
  map (fun n => (n, fst g)) (snd g).

Lemma switch_eqb_eq a b : switch_eqb a b = true -> a = b.
Proof.
  destruct a as [x|x|], b as [y|y|]; cbn; intros H; try discriminate; try reflexivity;
    apply String.eqb_eq in H; congruence.
Qed.

Lemma gb_add_perm n sw g :
  Permutation ((n, sw) :: flat_map group_pairs g) (flat_map group_pairs (gb_add n sw g)).
Proof.
  induction g as [|[sw' ns] g IH]; cbn [gb_add flat_map].
  - cbn. apply Permutation_refl.
  - destruct (switch_eqb sw sw') eqn:E.
    + apply switch_eqb_eq in E. subst sw'. cbn [flat_map]. unfold group_pairs at 1 3. cbn [fst snd].
      rewrite map_app, <- app_assoc. cbn [map app]. apply Permutation_middle.
    + cbn [flat_map]. eapply perm_trans; [apply Permutation_middle|].
      apply Permutation_app_head. exact IH.
Qed.

Lemma group_by_perm_gen ts : forall g,
  Permutation (flat_map group_pairs g ++ ts)
              (flat_map group_pairs (fold_left (fun g t => gb_add (fst t) (snd t) g) ts g)).
Proof.
  induction ts as [|[n sw] ts IH]; intros g; cbn [fold_left fst snd].
  - rewrite app_nil_r. apply Permutation_refl.
  - eapply perm_trans; [|apply IH]. eapply perm_trans; [apply Permutation_sym, Permutation_middle|].
    apply (Permutation_app_tail ts (gb_add_perm n sw g)).
Qed.

Lemma group_by_perm ts : Permutation ts (flat_map group_pairs (group_by_switch ts)).
Proof. exact (group_by_perm_gen ts []). Qed.

Lemma gb_add_nonempty n sw g :
  Forall (fun x => snd x <> []) g -> Forall (fun x : switch * list string => snd x <> []) (gb_add n sw g).
Proof.
  induction 1 as [|[sw' ns] g Hx Hg IH]; cbn [gb_add]; [repeat constructor; discriminate|].
  destruct (switch_eqb sw sw'); constructor; try assumption.
  cbn [snd]. intros E. apply app_eq_nil in E as [_ E]. discriminate.
Qed.

Lemma group_by_nonempty ts : Forall (fun x => snd x <> []) (group_by_switch ts).
Proof.
  unfold group_by_switch. generalize (@Forall_nil _ (fun x : switch * list string => snd x <> [])).
  generalize (@nil (switch * list string)). induction ts as [|t ts IH]; intros g Hg; cbn [fold_left]; [exact Hg|].
  apply IH. apply gb_add_nonempty. exact Hg.
Qed.

(** The [%on] lines carry exactly the transitions of the configuration. *)
Lemma render_ons_pairs ts : Permutation ts (ons_pairs (render_ons ts)).
Proof.
  unfold render_ons, ons_pairs.
  set (mk := fun g : switch * list string =>
               let ns := sort_names (snd g) in (on_line ns (fst g), D_On ns (fst g))).
  eapply perm_trans; [apply group_by_perm|].
  eapply perm_trans; [apply (flat_map_perm_ext group_pairs (fun g => on_pairs (snd (mk g))))|].
  { intros [sw ns]. unfold group_pairs, mk. cbn [fst snd on_pairs]. apply Permutation_map.
    apply isort_by_perm. }
  rewrite (flat_map_map snd on_pairs), <- (flat_map_map mk (fun x => on_pairs (snd x))).
  apply flat_map_perm. apply isort_by_perm.
Qed.

Lemma render_ons_is_on ts : forallb is_on (render_ons ts) = true.
Proof.
  unfold render_ons. apply forallb_forall. intros d Hd. apply in_map_iff in Hd as ([k d'] & <- & Hin).
  apply (Permutation_in _ (Permutation_sym (isort_by_perm _ _))) in Hin.
  apply in_map_iff in Hin as (g & Hg & _). inversion Hg. reflexivity.
Qed.

(** ** Reading segment by segment *)
Lemma read_line_comments xs : forall lc bc nl ws au sk tr,
  fold_left read_step (map D_LineComment xs) (mk_cfg lc bc nl ws au sk tr)
  = mk_cfg (lc ++ xs) bc nl ws au sk tr.
Proof.
  induction xs as [|x xs IH]; intros; cbn [map fold_left read_step].
  - rewrite app_nil_r. reflexivity.
  - rewrite IH, <- app_assoc. reflexivity.
Qed.

Lemma read_block_comments xs : forall lc bc nl ws au sk tr,
  fold_left read_step (map (fun se => D_BlockComment (fst se) (snd se)) xs) (mk_cfg lc bc nl ws au sk tr)
  = mk_cfg lc (bc ++ xs) nl ws au sk tr.
Proof.
  induction xs as [|[s e] xs IH]; intros; cbn [map fold_left read_step fst snd].
  - rewrite app_nil_r. reflexivity.
  - rewrite IH, <- app_assoc. reflexivity.
Qed.

Lemma read_ons ds : forall lc bc nl ws au sk tr,
  forallb is_on ds = true ->
  fold_left read_step ds (mk_cfg lc bc nl ws au sk tr)
  = mk_cfg lc bc nl ws au sk (insert_all (ons_pairs ds) tr).
Proof.
  induction ds as [|d ds IH]; intros lc bc nl ws au sk tr H; [reflexivity|].
  cbn [forallb] in H. apply andb_true_iff in H as [Hd Hds].
  destruct d as [| | | | |names sw|]; try discriminate. cbn [fold_left read_step].
  rewrite (IH _ _ _ _ _ _ _ Hds). f_equal. unfold ons_pairs. cbn [flat_map on_pairs].
  unfold insert_all. rewrite fold_left_app. f_equal.
  clear. revert tr. induction names as [|n names IH]; intros tr; [reflexivity|].
  cbn [map fold_left]. apply IH.
Qed.

Lemma read_skip sk0 : forall lc bc nl ws au sk tr,
  fold_left read_step (render_skip sk0) (mk_cfg lc bc nl ws au sk tr)
  = mk_cfg lc bc nl ws au (sk ++ dedup (sort_names sk0)) tr.
Proof.
  intros. unfold render_skip. destruct (dedup (sort_names sk0)) as [|x l]; cbn [fold_left read_step].
  - rewrite app_nil_r. reflexivity.
  - reflexivity.
Qed.

(** What reading the rendered text gives, for ANY configuration. *)
Lemma read_render_gen lc bc nl ws au sk tr (extra : list directive) au' :
  fold_left read_step extra (mk_cfg lc bc nl ws false [] []) = mk_cfg lc bc nl ws au' [] [] ->
  read_cfg (render_comments (mk_cfg lc bc nl ws au sk tr) ++ render_flags (mk_cfg lc bc nl ws au sk tr) ++
            extra ++ render_skip sk ++ render_ons tr)
  = mk_cfg lc bc nl ws au' (dedup (sort_names (dedup (sort_names sk))))
           (insert_all (ons_pairs (render_ons tr)) []).
Proof.
  intros Hextra. unfold read_cfg, render_comments, render_flags, default_cfg.
  cbn [line_comments block_comments auto_newline auto_ws].
  rewrite !fold_left_app, read_line_comments, read_block_comments. cbn [app].
  assert (E : fold_left read_step (if ws then [] else [D_AutoWsOff])
                (fold_left read_step (if nl then [] else [D_AutoNewlineOff])
                   (mk_cfg lc bc true true false [] [])) = mk_cfg lc bc nl ws false [] []).
  { destruct nl, ws; reflexivity. }
  rewrite E, Hextra, read_skip, (read_ons _ _ _ _ _ _ _ _ (render_ons_is_on tr)). reflexivity.
Qed.

(** ** D4: [%allow_unmatched] is lost *)
Theorem render_cfg_loses_allow_unmatched c : allow_unmatched (read_cfg (render_cfg c)) = false.
Proof.
  destruct c as [lc bc nl ws au sk tr]. unfold render_cfg. cbn [skip transitions].
  pose proof (read_render_gen lc bc nl ws au sk tr [] false eq_refl) as H. cbn [app] in H.
  rewrite H. reflexivity.
Qed.

Definition d4_witness : scanner_cfg := mk_cfg [] [] true true true [] [].

Theorem scanner_cfg_roundtrip_refuted :
  exists c, cfg_wf c = true /\ read_cfg (render_cfg c) <> c.
Proof. exists d4_witness. split; [reflexivity|]. vm_compute. discriminate. Qed.

(** ** The round trip of the repaired renderer *)
Lemma transitions_roundtrip tr :
  strictly_sorted (map fst tr) = true -> insert_all (ons_pairs (render_ons tr)) [] = tr.
Proof.
  intros Hs. destruct (insert_all_spec (ons_pairs (render_ons tr)) [] (SSorted_nil _)) as [H1 H2].
  rewrite app_nil_r in H2. apply sorted_perm_unique.
  - exact H1.
  - pose proof (strictly_sorted_strong _ Hs) as Hst. clear -Hst.
    induction tr as [|a tr IH]; [constructor|]. cbn [map] in Hst.
    inversion Hst as [|x y Hs' Hall]; subst. constructor; [exact (IH Hs')|].
    rewrite Forall_forall in *. intros b Hb. apply ltb_leb. apply Hall. apply in_map. exact Hb.
  - apply strictly_sorted_NoDup. exact Hs.
  - apply Permutation_sym. eapply perm_trans; [apply render_ons_pairs|exact H2].
Qed.

Theorem scanner_cfg_roundtrip c : cfg_wf c = true -> read_cfg (render_cfg_fixed c) = c.
Proof.
  destruct c as [lc bc nl ws au sk tr]. unfold cfg_wf, render_cfg_fixed.
  cbn [skip transitions allow_unmatched]. intros H. apply andb_true_iff in H as [Hsk Htr].
  rewrite (read_render_gen lc bc nl ws au sk tr _ au) by (destruct au; reflexivity).
  rewrite !(canon_names_id _ Hsk), (transitions_roundtrip _ Htr). reflexivity.
Qed.

(** At HEAD the round trip holds exactly for the configurations without [%allow_unmatched]. *)
Theorem scanner_cfg_roundtrip_head c :
  cfg_wf c = true -> (read_cfg (render_cfg c) = c <-> allow_unmatched c = false).
Proof.
  intros Hwf. split.
  - intros H. rewrite <- H. apply render_cfg_loses_allow_unmatched.
  - intros Hau. rewrite <- (scanner_cfg_roundtrip c Hwf) at 2.
    destruct c as [lc bc nl ws au sk tr]. cbn [allow_unmatched] in Hau. subst au. reflexivity.
Qed.

(** Every configuration (canonical or not) is rendered to syntactically correct directives, and
    reading them back gives a canonical configuration. *)
Theorem render_cfg_fixed_syntax c : forallb directive_ok (render_cfg_fixed c) = true.
Proof.
  unfold render_cfg_fixed, render_comments, render_flags, render_skip, render_ons.
  rewrite !forallb_app. repeat (apply andb_true_iff; split).
  - apply forallb_forall. intros d Hd. apply in_map_iff in Hd as (x & <- & _). reflexivity.
  - apply forallb_forall. intros d Hd. apply in_map_iff in Hd as (x & <- & _). reflexivity.
  - destruct (auto_newline c); reflexivity.
  - destruct (auto_ws c); reflexivity.
  - destruct (allow_unmatched c); reflexivity.
  - destruct (dedup (sort_names (skip c))); reflexivity.
  - apply forallb_forall. intros d Hd. apply in_map_iff in Hd as ([k d'] & <- & Hin).
    apply (Permutation_in _ (Permutation_sym (isort_by_perm _ _))) in Hin.
    apply in_map_iff in Hin as (g & Hg & Hgin). inversion Hg; subst. cbn [snd directive_ok].
    pose proof (proj1 (Forall_forall _ _) (group_by_nonempty (transitions c)) g Hgin) as Hne.
    destruct (sort_names (snd g)) as [|n ns] eqn:E; [|reflexivity]. exfalso. apply Hne.
    pose proof (isort_by_perm String.leb (snd g)) as Hp. unfold sort_names in E. rewrite E in Hp.
    apply Permutation_sym, Permutation_nil in Hp. exact Hp.
Qed.

(** ** Examples *)
Definition ex_cfg : scanner_cfg :=
  mk_cfg ["//"; "#"] [("/\*", "\*/")] false true true ["Comma"; "Ws"]
         [("Colon", Sw_Enter "Str"); ("Hash", Sw_Pop); ("Quote", Sw_Push "Str"); ("Tick", Sw_Enter "Str")].

Example ex_wf : cfg_wf ex_cfg = true.
Proof. vm_compute. reflexivity. Qed.

Example ex_render :
  render_cfg_fixed ex_cfg =
  [D_LineComment "//"; D_LineComment "#"; D_BlockComment "/\*" "\*/"; D_AutoNewlineOff;
   D_AllowUnmatched; D_Skip ["Comma"; "Ws"];
   D_On ["Colon"; "Tick"] (Sw_Enter "Str"); D_On ["Hash"] Sw_Pop; D_On ["Quote"] (Sw_Push "Str")].
Proof. vm_compute. reflexivity. Qed.

Example ex_roundtrip : read_cfg (render_cfg_fixed ex_cfg) = ex_cfg.
Proof. vm_compute. reflexivity. Qed.

Example ex_head_loses : read_cfg (render_cfg ex_cfg) = mk_cfg ["//"; "#"] [("/\*", "\*/")] false true false ["Comma"; "Ws"]
         [("Colon", Sw_Enter "Str"); ("Hash", Sw_Pop); ("Quote", Sw_Push "Str"); ("Tick", Sw_Enter "Str")].
Proof. vm_compute. reflexivity. Qed.

(** A non-canonical configuration is canonicalised by the round trip (skips sorted, deduplicated;
    transitions sorted by name). *)
Example ex_noncanonical :
  read_cfg (render_cfg_fixed (mk_cfg [] [] true false false ["B"; "A"; "B"] [("Y", Sw_Pop); ("X", Sw_Pop)]))
  = mk_cfg [] [] true false false ["A"; "B"] [("X", Sw_Pop); ("Y", Sw_Pop)].
Proof. vm_compute. reflexivity. Qed.

(** The reader on hand-written directives: a name used twice gives two entries. *)
Example ex_read_twice :
  transitions (read_cfg [D_On ["A"; "B"] (Sw_Enter "X"); D_On ["A"] Sw_Pop])
  = [("A", Sw_Enter "X"); ("A", Sw_Pop); ("B", Sw_Enter "X")].
Proof. vm_compute. reflexivity. Qed.

Print Assumptions render_cfg_loses_allow_unmatched.
Print Assumptions scanner_cfg_roundtrip_refuted.
Print Assumptions scanner_cfg_roundtrip.
Print Assumptions scanner_cfg_roundtrip_head.
Print Assumptions render_cfg_fixed_syntax.
