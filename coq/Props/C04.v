(** Property C04 — LALR(1) conflicts are always reported and resolution stays sound.
    Pinned statements only.

    (ii) "every input the resulting parser accepts is still a sentence": the soundness theorem of
    the LR safety validator needs no conflict-freedom, so it covers tables in which conflicts were
    resolved (shift preferred, earlier production preferred).

    (i) "never silently produces a table for a conflicting grammar" has no theorem yet: a verified
    or definitional reference LALR(1) construction is not part of the development.  It is decided
    per instance, and only partially: when parol reports no conflict the real parser must accept
    EXACTLY the language on all token strings up to a bound (a silently dropped conflict that
    loses or adds a sentence is caught; one that only hides an ambiguity is not). *)
From Coq Require Import List NArith.
From Parol Require Import Grammar.Cfg Runtime.LRParser Tables.LRValidate.
Import ListNotations.

Theorem C04_resolution_stays_sound : forall g tb ann fuel toks reds forest,
  lr_safe_check g tb ann = true -> ~ In 0%N toks ->
  lr_run fuel tb toks = Accepted reds forest -> lang g toks.
Proof.
  intros g tb ann fuel toks reds forest H1 H2 H3.
  destruct (lr_safe_check_sound g tb ann fuel toks reds forest H1 H2 H3) as (t & _ & Hl & _).
  exact Hl.
Qed.

Theorem C04_validate_is_check : forall fuel g tb,
  lr_validate fuel g tb = true -> exists ann, lr_safe_check g tb ann = true.
Proof.
  intros fuel g tb H. unfold lr_validate in H.
  destruct (infer_annotation fuel tb) as [ann|]; [|discriminate]. exists ann. exact H.
Qed.

(* ---------------------------------------------------------------- ambiguity witnesses: a grammar with a checked witness is
   ambiguous, hence not LALR(1); a table for it without any reported conflict violates (i) *)
From Parol Require Import Grammar.Ambig.

Theorem C04_ambig_check_sound :
  forall (g : cfg) (t1 t2 : tree), ambig_check g t1 t2 = true -> ambiguous g.
Proof. exact ambig_check_sound. Qed.

