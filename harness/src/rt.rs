//! Helpers to drive the real runtime parsers: tree-event recorder, action recorder, leaking.
use parol_runtime::parser::parse_tree_type::TreeConstruct;
use parol_runtime::{ParolError, ParseTreeType, Token, UserActionsTrait};

#[derive(Default)]
pub struct Recorder {
    pub events: Vec<String>,
    pub names: Vec<&'static str>,
}

impl Recorder {
    pub fn new(names: &[&'static str]) -> Self {
        Recorder { events: vec![], names: names.to_vec() }
    }
    pub fn sx(&self) -> String {
        format!("({})", self.events.join(" "))
    }
}

impl<'t> TreeConstruct<'t> for Recorder {
    type Error = ParolError;
    type Tree = ();
    fn open_non_terminal(&mut self, name: &'static str, _size_hint: Option<usize>) -> Result<(), ParolError> {
        let idx = self.names.iter().position(|n| *n == name).map(|i| i as i64).unwrap_or(-1);
        self.events.push(format!("(o {idx})"));
        Ok(())
    }
    fn close_non_terminal(&mut self) -> Result<(), ParolError> {
        self.events.push("(c)".to_string());
        Ok(())
    }
    fn add_token(&mut self, token: &Token<'t>) -> Result<(), ParolError> {
        self.events.push(format!("(t {} {} {})", token.token_type, token.location.start, token.location.end));
        Ok(())
    }
    fn build(self) -> Result<(), ParolError> {
        Ok(())
    }
}

#[derive(Default)]
pub struct Actions {
    /// (production number, number of children, number of token children)
    pub calls: Vec<(usize, usize)>,
    /// per call: production number and the children handed over (token type, or -1 for a non-terminal)
    pub full: Vec<(usize, Vec<i64>)>,
    pub comments: Vec<(u16, usize)>,
}

impl<'t> UserActionsTrait<'t> for Actions {
    fn call_semantic_action_for_production_number(&mut self, prod_num: usize, children: &[ParseTreeType<'t>]) -> parol_runtime::Result<()> {
        self.calls.push((prod_num, children.len()));
        self.full.push((prod_num, children.iter().map(|c| match c { ParseTreeType::T(t) => t.token_type as i64, ParseTreeType::N(_) => -1 }).collect()));
        if self.calls.len() > 20000 {
            // far more semantic actions than any input of a few dozen tokens can need: the parser
            // is reducing in a cycle. Stop it through the user-action error channel.
            return Err(parol_runtime::ParolError::UserError(anyhow::anyhow!("action budget exhausted")));
        }
        Ok(())
    }
    fn on_comment(&mut self, token: Token<'t>) {
        self.comments.push((token.token_type, token.location.start as usize));
    }
}

impl Actions {
    pub fn sx_full(&self) -> String {
        format!("({})", self.full.iter().map(|(p, cs)| format!("({p} ({}))", cs.iter().map(|c| c.to_string()).collect::<Vec<_>>().join(" "))).collect::<Vec<_>>().join(" "))
    }
    pub fn sx(&self) -> String {
        format!("({})", self.calls.iter().map(|(p, n)| format!("({p} {n})")).collect::<Vec<_>>().join(" "))
    }
}

pub fn leak_str(s: &str) -> &'static str {
    Box::leak(s.to_string().into_boxed_str())
}

pub fn leak_names(v: &[String]) -> &'static [&'static str] {
    let r: Vec<&'static str> = v.iter().map(|s| leak_str(s)).collect();
    Box::leak(r.into_boxed_slice())
}

pub fn terminal_names() -> &'static [&'static str] {
    let mut v: Vec<String> = vec!["EndOfInput".into(), "Newline".into(), "Whitespace".into(), "LineComment".into(), "BlockComment".into()];
    for i in 0..26u8 {
        v.push(((b'a' + i) as char).to_string());
    }
    v.push("Error".into());
    leak_names(&v)
}

pub fn err_kind(e: &ParolError) -> String {
    use parol_runtime::{LexerError, ParserError};
    match e {
        ParolError::ParserError(p) => match p {
            ParserError::SyntaxErrors { entries } => format!("(syntax {})", entries.len()),
            ParserError::PredictionError { .. } => "(prediction)".into(),
            ParserError::UnprocessedInput { .. } => "(unprocessed)".into(),
            ParserError::MaxParsingDepthExceeded { .. } => "(depth)".into(),
            ParserError::RecoveryFailed => "(recoveryfailed)".into(),
            ParserError::InternalError(_) => "(internal)".into(),
            ParserError::DataError(_) => "(data)".into(),
            _ => "(parser-other)".into(),
        },
        ParolError::LexerError(l) => match l {
            LexerError::TokenBufferEmptyError => "(lex-empty)".into(),
            _ => "(lexer)".into(),
        },
        ParolError::UserError(_) => "(budget)".into(),
    }
}
