(** * A proved equivalence checker for regexes (bisimulation of Brzozowski derivatives).

    Used to decide C15 (generated comment regex = specification regex) and C16 (the catch-all
    error token matches every code point).

    The class boundaries occurring in the two regexes partition the code-point space into
    intervals on which both regexes behave uniformly ([deriv_uniform]); the checker explores
    pairs of simultaneous derivatives over one representative character per interval. *)
From Coq Require Import List NArith Bool Lia Arith.
From Parol Require Import Scanner.Regex.
Import ListNotations.

(** ** Interval partition induced by the character classes of a regex *)

(** Every range [lo..hi] contributes the two interval starts [lo] and [hi+1]. *)
Fixpoint range_bounds (rs : list (N * N)) : list N :=
  match rs with
  | [] => []
  | p :: rs' => fst p :: N.succ (snd p) :: range_bounds rs'
  end.

Fixpoint bounds (r : regex) : list N :=
  match r with
  | Empty => []
  | Eps => []
  | Cls rs => range_bounds rs
  | Cat a b => bounds a ++ bounds b
  | Alt a b => bounds a ++ bounds b
  | Star a => bounds a
  end.

(** [c] and [c'] lie in the same interval of the partition given by the interval starts [B]. *)
Definition same_side (B : list N) (c c' : N) : Prop :=
  forall b, In b B -> N.leb b c = N.leb b c'.

Lemma same_side_incl B B' c c' : incl B' B -> same_side B c c' -> same_side B' c c'.
Proof. intros Hi Hs b Hb. apply Hs. apply Hi. assumption. Qed.

Lemma leb_succ_negb c h : N.leb c h = negb (N.leb (N.succ h) c).
Proof.
  destruct (N.leb_spec c h) as [H|H]; destruct (N.leb_spec (N.succ h) c) as [H'|H'];
    try reflexivity; lia.
Qed.

Lemma in_ranges_uniform rs c c' :
  same_side (range_bounds rs) c c' -> in_ranges c rs = in_ranges c' rs.
Proof.
  induction rs as [|[lo hi] rs IH]; intros Hs; cbn [in_ranges existsb]; [reflexivity|].
  fold (in_ranges c rs). fold (in_ranges c' rs). unfold in_range. cbn [fst snd].
  rewrite (leb_succ_negb c hi), (leb_succ_negb c' hi).
  rewrite (Hs lo), (Hs (N.succ hi)), IH.
  - reflexivity.
  - intros b Hb. apply Hs. cbn [range_bounds]. right. right. assumption.
  - cbn [range_bounds fst snd]. right. left. reflexivity.
  - cbn [range_bounds fst snd]. left. reflexivity.
Qed.

(** Derivatives w.r.t. two characters of the same interval are (syntactically) equal. *)
Theorem deriv_uniform r c c' : same_side (bounds r) c c' -> deriv c r = deriv c' r.
Proof.
  induction r as [| |rs|a IHa b IHb|a IHa b IHb|a IHa]; intros Hs; cbn [deriv bounds] in *;
    try reflexivity.
  - rewrite (in_ranges_uniform rs c c' Hs). reflexivity.
  - rewrite IHa, IHb; [reflexivity | |];
      eapply same_side_incl; try exact Hs; [apply incl_appr | apply incl_appl]; apply incl_refl.
  - rewrite IHa, IHb; [reflexivity | |];
      eapply same_side_incl; try exact Hs; [apply incl_appr | apply incl_appl]; apply incl_refl.
  - rewrite IHa; [reflexivity | assumption].
Qed.

(** Derivation introduces no new class boundaries. *)
Lemma bounds_mkCat a b : incl (bounds (mkCat a b)) (bounds a ++ bounds b).
Proof.
  destruct a; cbn [mkCat bounds app]; try apply incl_refl; try (intros x []);
    destruct b; cbn [bounds]; try apply incl_refl; try (intros x []);
    rewrite ?app_nil_r; apply incl_refl.
Qed.

Lemma bounds_alt_insert x s : incl (bounds (alt_insert x s)) (bounds x ++ bounds s).
Proof.
  assert (G : forall q,
    incl (bounds (match regex_compare x q with Eq => q | Lt => Alt x q | Gt => Alt q x end))
         (bounds x ++ bounds q)).
  { intros q. destruct (regex_compare x q); cbn [bounds].
    - apply incl_appr, incl_refl.
    - apply incl_refl.
    - intros y Hy. apply in_app_or in Hy. apply in_or_app. tauto. }
  induction s as [| |a|a _ b _|a _ b IHb|a _]; cbn [alt_insert]; try apply G.
  - cbn [bounds]. rewrite app_nil_r. apply incl_refl.
  - destruct (regex_compare x a); cbn [bounds].
    + apply incl_appr, incl_refl.
    + apply incl_refl.
    + intros y Hy. apply in_app_or in Hy. destruct Hy as [Hy|Hy].
      * apply in_or_app. right. apply in_or_app. left. assumption.
      * apply IHb in Hy. apply in_app_or in Hy. apply in_or_app.
        destruct Hy as [Hy|Hy]; [left; assumption | right; apply in_or_app; right; assumption].
Qed.

Lemma bounds_mkAlt r : forall s, incl (bounds (mkAlt r s)) (bounds r ++ bounds s).
Proof.
  induction r as [| |a|a _ b _|a IHa b IHb|a _]; intros s; cbn [mkAlt];
    try apply bounds_alt_insert.
  - cbn [bounds app]. apply incl_refl.
  - intros y Hy. apply IHa in Hy. apply in_app_or in Hy. cbn [bounds]. rewrite <- app_assoc.
    apply in_or_app. destruct Hy as [Hy|Hy]; [left; assumption | right].
    apply IHb. assumption.
Qed.

Lemma bounds_deriv c r : incl (bounds (deriv c r)) (bounds r).
Proof.
  induction r as [| |rs|a IHa b IHb|a IHa b IHb|a IHa]; cbn [deriv bounds].
  - apply incl_refl.
  - apply incl_refl.
  - destruct (in_ranges c rs); intros x [].
  - assert (HL : incl (bounds (mkCat (deriv c a) b)) (bounds a ++ bounds b)).
    { intros y Hy. apply bounds_mkCat in Hy. apply in_app_or in Hy. apply in_or_app.
      destruct Hy as [Hy|Hy]; [left; apply IHa|right]; assumption. }
    destruct (nullable a); [|exact HL].
    intros y Hy. apply bounds_mkAlt in Hy. apply in_app_or in Hy.
    destruct Hy as [Hy|Hy]; [apply HL; assumption|]. apply in_or_app. right. apply IHb. assumption.
  - intros y Hy. apply bounds_mkAlt in Hy. apply in_app_or in Hy. apply in_or_app.
    destruct Hy as [Hy|Hy]; [left; apply IHa | right; apply IHb]; assumption.
  - intros y Hy. apply bounds_mkCat in Hy. cbn [bounds] in Hy. apply in_app_or in Hy.
    destruct Hy as [Hy|Hy]; [apply IHa|]; assumption.
Qed.

(** The representative of [c]: the largest interval start [<= c] (0 if none). *)
Fixpoint rep (B : list N) (c : N) : N :=
  match B with
  | [] => 0%N
  | b :: B' => let m := rep B' c in if N.leb b c then N.max b m else m
  end.

Lemma rep_le B c : (rep B c <= c)%N.
Proof.
  induction B as [|b B IH]; cbn [rep]; [lia|].
  destruct (N.leb_spec b c) as [H|H]; lia.
Qed.

Lemma rep_in B c : rep B c = 0%N \/ In (rep B c) B.
Proof.
  induction B as [|b B IH]; cbn [rep]; [left; reflexivity|].
  destruct (N.leb_spec b c) as [H|H].
  - destruct (N.max_spec b (rep B c)) as [[_ E]|[_ E]]; rewrite E.
    + destruct IH as [IH|IH]; [left; assumption | right; right; assumption].
    + right. left. reflexivity.
  - destruct IH as [IH|IH]; [left; assumption | right; right; assumption].
Qed.

Lemma rep_max B c b : In b B -> (b <= c)%N -> (b <= rep B c)%N.
Proof.
  induction B as [|b' B IH]; intros Hb Hle; [destruct Hb|]. cbn [rep].
  destruct Hb as [Hb|Hb].
  - subst. destruct (N.leb_spec b c) as [H|H]; lia.
  - specialize (IH Hb Hle). destruct (N.leb_spec b' c) as [H|H]; lia.
Qed.

Lemma rep_same_side B c : same_side B c (rep B c).
Proof.
  intros b Hb. pose proof (rep_le B c) as Hle.
  destruct (N.leb_spec b c) as [H|H]; destruct (N.leb_spec b (rep B c)) as [H'|H'];
    try reflexivity.
  - pose proof (rep_max B c b Hb H). lia.
  - lia.
Qed.

(** A regex cannot tell a word from the word of its representatives. *)
Lemma matches_rep B w : forall r, incl (bounds r) B -> (matches r w <-> matches r (map (rep B) w)).
Proof.
  induction w as [|c w IH]; intros r Hi; cbn [map]; [reflexivity|].
  rewrite <- !deriv_spec.
  rewrite (deriv_uniform r c (rep B c)).
  - apply IH. intros y Hy. apply Hi. apply (bounds_deriv _ _ _ Hy).
  - eapply same_side_incl; [exact Hi | apply rep_same_side].
Qed.

(** Duplicate removal (keeps the set of elements). *)
Fixpoint dedup (l : list N) : list N :=
  match l with
  | [] => []
  | x :: l' => if existsb (N.eqb x) l' then dedup l' else x :: dedup l'
  end.

Lemma dedup_In l x : In x (dedup l) <-> In x l.
Proof.
  induction l as [|y l IH]; cbn [dedup]; [reflexivity|].
  destruct (existsb (N.eqb y) l) eqn:E.
  - rewrite IH. split; [right; assumption|]. intros [H|H]; [|assumption].
    subst. apply existsb_exists in E. destruct E as [z [Hz Hyz]]. apply N.eqb_eq in Hyz.
    subst. assumption.
  - cbn [In]. rewrite IH. reflexivity.
Qed.

(** Representative characters of [B]: [0] and all interval starts, optionally cut at [maxc]. *)
Definition reps_of (maxc : option N) (B : list N) : list N :=
  let l := dedup (0%N :: B) in
  match maxc with
  | None => l
  | Some m => filter (fun b => N.leb b m) l
  end.

Definition char_ok (maxc : option N) (c : N) : Prop :=
  match maxc with None => True | Some m => (c <= m)%N end.

Lemma rep_in_reps maxc B c : char_ok maxc c -> In (rep B c) (reps_of maxc B).
Proof.
  intros Hc. assert (H0 : In (rep B c) (dedup (0%N :: B))).
  { apply dedup_In. destruct (rep_in B c) as [H|H]; [left; symmetry; assumption | right; assumption]. }
  unfold reps_of. destruct maxc as [m|]; [|assumption].
  apply filter_In. split; [assumption|]. apply N.leb_le. cbn [char_ok] in Hc.
  pose proof (rep_le B c). lia.
Qed.

Lemma reps_of_ok maxc B c : In c (reps_of maxc B) -> char_ok maxc c.
Proof.
  unfold reps_of. destruct maxc as [m|]; cbn [char_ok]; [|trivial].
  intros H. apply filter_In in H. destruct H as [_ H]. apply N.leb_le. assumption.
Qed.

(** ** The bisimulation search *)

Definition pair_eqb (p q : regex * regex) : bool :=
  regex_eqb (fst p) (fst q) && regex_eqb (snd p) (snd q).

Lemma pair_eqb_eq p q : pair_eqb p q = true -> p = q.
Proof.
  destruct p as [a b], q as [c d]. unfold pair_eqb. cbn [fst snd]. intros H.
  apply andb_prop in H as [H1 H2]. apply regex_eqb_eq in H1. apply regex_eqb_eq in H2.
  subst. reflexivity.
Qed.

Definition work_item : Type := (list N * regex * regex)%type.
Definition wpair (x : work_item) : regex * regex := (snd (fst x), snd x).

(** [explore fuel reps V W]: [V] = pairs already expanded, [W] = work list of
    (reversed access word, derivative of r1, derivative of r2), processed first-in first-out so
    that a reported witness is a shortest one.  One unit of fuel per popped item. *)
Fixpoint explore (fuel : nat) (reps : list N) (V : list (regex * regex)) (W : list work_item)
  : option (option (list N)) :=
  match fuel with
  | O => None
  | S f =>
    match W with
    | [] => Some None
    | (w, a, b) :: W' =>
      if regex_eqb a b then explore f reps V W'
      else if existsb (pair_eqb (a, b)) V then explore f reps V W'
      else if Bool.eqb (nullable a) (nullable b)
      then explore f reps ((a, b) :: V)
                   (W' ++ map (fun c => (c :: w, deriv c a, deriv c b)) reps)
      else Some (Some (rev w))
    end
  end.

(** [V] is closed (up to the work list [W] and syntactic identity) under derivation by [reps]
    and its pairs agree on nullability. *)
Definition closed (reps : list N) (V W : list (regex * regex)) : Prop :=
  forall a b, In (a, b) V ->
    nullable a = nullable b /\
    forall c, In c reps ->
      In (deriv c a, deriv c b) V \/ In (deriv c a, deriv c b) W \/ deriv c a = deriv c b.

Lemma explore_closed reps : forall f V W,
  explore f reps V W = Some None ->
  closed reps V (map wpair W) ->
  exists V', incl V V' /\
             (forall a b, In (a, b) (map wpair W) -> In (a, b) V' \/ a = b) /\
             closed reps V' [].
Proof.
  induction f as [|f IH]; intros V W He Hc; cbn [explore] in He; [discriminate|].
  destruct W as [|[[w a] b] W'].
  - exists V. split; [apply incl_refl|]. split; [intros a b []|]. exact Hc.
  - cbn [map] in Hc. unfold wpair at 1 in Hc. cbn [fst snd] in Hc.
    destruct (regex_eqb a b) eqn:Eab.
    { apply regex_eqb_eq in Eab. subst b.
      destruct (IH V W' He) as [V' [Hi [Hw Hc']]].
      - intros x y Hxy. destruct (Hc x y Hxy) as [Hn Hd]. split; [assumption|].
        intros c Hcr. destruct (Hd c Hcr) as [H|[[H|H]|H]]; auto.
        inversion H. right. right. congruence.
      - exists V'. split; [assumption|]. split; [|assumption].
        intros x y [Hxy|Hxy]; [inversion Hxy; right; reflexivity | apply Hw; assumption]. }
    destruct (existsb (pair_eqb (a, b)) V) eqn:Ev.
    { apply existsb_exists in Ev. destruct Ev as [p [Hp Hpe]]. apply pair_eqb_eq in Hpe. subst p.
      destruct (IH V W' He) as [V' [Hi [Hw Hc']]].
      - intros x y Hxy. destruct (Hc x y Hxy) as [Hn Hd]. split; [assumption|].
        intros c Hcr. destruct (Hd c Hcr) as [H|[[H|H]|H]]; auto.
        left. rewrite <- H. assumption.
      - exists V'. split; [assumption|]. split; [|assumption].
        intros x y [Hxy|Hxy]; [inversion Hxy; subst; left; apply Hi; assumption
                              | apply Hw; assumption]. }
    destruct (Bool.eqb (nullable a) (nullable b)) eqn:En; [|discriminate].
    apply eqb_prop in En.
    destruct (IH _ _ He) as [V' [Hi [Hw Hc']]].
    + intros x y [Hxy|Hxy].
      * inversion Hxy; subst x y. split; [assumption|]. intros c Hcr. right. left.
        rewrite map_app. apply in_or_app. right. rewrite map_map.
        apply in_map_iff. exists c. split; [reflexivity | assumption].
      * destruct (Hc x y Hxy) as [Hn Hd]. split; [assumption|].
        intros c Hcr. destruct (Hd c Hcr) as [H|[[H|H]|H]].
        -- left. right. assumption.
        -- left. left. assumption.
        -- right. left. rewrite map_app. apply in_or_app. left. assumption.
        -- right. right. assumption.
    + exists V'. split; [intros p Hp; apply Hi; right; assumption|]. split; [|assumption].
      intros x y [Hxy|Hxy].
      * inversion Hxy; subst. left. apply Hi. left. reflexivity.
      * apply Hw. rewrite map_app. apply in_or_app. left. assumption.
Qed.

Lemma closed_bisim reps V :
  closed reps V [] ->
  forall w, Forall (fun c => In c reps) w ->
  forall a b, In (a, b) V \/ a = b -> (matches a w <-> matches b w).
Proof.
  intros Hc w. induction w as [|c w IH]; intros Hw a b Hab.
  - destruct Hab as [Hab|Hab]; [|subst; reflexivity].
    rewrite <- !nullable_spec. destruct (Hc a b Hab) as [Hn _]. rewrite Hn. reflexivity.
  - destruct Hab as [Hab|Hab]; [|subst; reflexivity].
    inversion Hw as [|c' w' Hcr Hw']; subst. rewrite <- !deriv_spec.
    apply (IH Hw'). destruct (Hc a b Hab) as [_ Hd].
    destruct (Hd c Hcr) as [H|[[]|H]]; auto.
Qed.

Lemma explore_sound reps f r1 r2 :
  explore f reps [] [([], r1, r2)] = Some None ->
  forall w, Forall (fun c => In c reps) w -> (matches r1 w <-> matches r2 w).
Proof.
  intros He w Hw. destruct (explore_closed reps f [] _ He) as [V' [_ [Hin Hc]]].
  - intros a b [].
  - apply (closed_bisim reps V' Hc w Hw). apply Hin. left. reflexivity.
Qed.

(** Every work item carries its access word (reversed), made of representatives. *)
Definition work_ok (reps : list N) (r1 r2 : regex) (W : list work_item) : Prop :=
  forall w a b, In (w, a, b) W ->
    a = derivs r1 (rev w) /\ b = derivs r2 (rev w) /\ Forall (fun c => In c reps) w.

Lemma explore_witness reps r1 r2 : forall f V W w,
  explore f reps V W = Some (Some w) -> work_ok reps r1 r2 W ->
  matchb r1 w <> matchb r2 w /\ Forall (fun c => In c reps) w.
Proof.
  induction f as [|f IH]; intros V W w He Hok; cbn [explore] in He; [discriminate|].
  destruct W as [|[[x a] b] W']; [discriminate|].
  assert (Hok' : work_ok reps r1 r2 W').
  { intros y p q Hy. apply Hok. right. assumption. }
  destruct (Hok x a b (or_introl eq_refl)) as [Ha [Hb Hx]].
  destruct (regex_eqb a b); [eapply IH; eassumption|].
  destruct (existsb (pair_eqb (a, b)) V); [eapply IH; eassumption|].
  destruct (Bool.eqb (nullable a) (nullable b)) eqn:En.
  - apply (IH _ _ _ He). intros y p q Hy. apply in_app_or in Hy.
    destruct Hy as [Hy|Hy]; [apply Hok'; assumption|].
    apply in_map_iff in Hy. destruct Hy as [c [Hy Hc]]. inversion Hy; subst y p q.
    cbn [rev]. rewrite !derivs_app. rewrite <- Ha, <- Hb.
    repeat split; try reflexivity. constructor; assumption.
  - inversion He; subst w. apply eqb_false_iff in En. split.
    + unfold matchb. rewrite <- Ha, <- Hb. assumption.
    + apply Forall_rev. assumption.
Qed.

(** ** The checkers

    [fuel] bounds the number of distinct pairs of derivatives that may be expanded (a few
    thousand is plenty for regexes with ~20 nodes); the number of work-list steps allowed is
    [fuel * (#representatives + 1) + 1].  Result: [Some None] = equivalent,
    [Some (Some w)] = [w] is matched by exactly one of the two, [None] = out of fuel. *)
Definition equiv_check_on (maxc : option N) (fuel : nat) (r1 r2 : regex)
  : option (option (list N)) :=
  let reps := reps_of maxc (bounds r1 ++ bounds r2) in
  explore (S (fuel * S (length reps))) reps [] [([], r1, r2)].

(** equivalence over all words of [N] *)
Definition equiv_check (fuel : nat) (r1 r2 : regex) : option (option (list N)) :=
  equiv_check_on None fuel r1 r2.

Definition max_code_point : N := 1114111%N.  (* 0x10FFFF *)

(** equivalence over all words of code points [0..0x10FFFF]; witnesses are such words *)
Definition equiv_check_cp (fuel : nat) (r1 r2 : regex) : option (option (list N)) :=
  equiv_check_on (Some max_code_point) fuel r1 r2.

Theorem equiv_check_on_sound maxc f r1 r2 :
  equiv_check_on maxc f r1 r2 = Some None ->
  forall w, Forall (char_ok maxc) w -> (matches r1 w <-> matches r2 w).
Proof.
  unfold equiv_check_on. intros He w Hw.
  set (B := bounds r1 ++ bounds r2) in *.
  rewrite (matches_rep B w r1), (matches_rep B w r2);
    [| apply incl_appr, incl_refl | apply incl_appl, incl_refl].
  apply (explore_sound _ _ _ _ He).
  apply Forall_forall. intros c Hc. apply in_map_iff in Hc. destruct Hc as [d [Hd Hin]].
  subst c. apply rep_in_reps. rewrite Forall_forall in Hw. apply Hw. assumption.
Qed.

Theorem equiv_check_on_witness maxc f r1 r2 w :
  equiv_check_on maxc f r1 r2 = Some (Some w) ->
  matchb r1 w <> matchb r2 w /\ Forall (char_ok maxc) w.
Proof.
  unfold equiv_check_on. intros He.
  destruct (explore_witness _ r1 r2 _ _ _ _ He) as [H1 H2].
  - intros y p q [Hy|[]]. inversion Hy; subst. cbn [rev derivs fold_left]. auto.
  - split; [assumption|]. apply Forall_forall. intros c Hc. rewrite Forall_forall in H2.
    apply (reps_of_ok _ _ _ (H2 c Hc)).
Qed.

Theorem equiv_check_sound f r1 r2 :
  equiv_check f r1 r2 = Some None -> forall w, matches r1 w <-> matches r2 w.
Proof.
  intros He w. apply (equiv_check_on_sound None f r1 r2 He).
  apply Forall_forall. intros c _. exact I.
Qed.

Theorem equiv_check_witness f r1 r2 w :
  equiv_check f r1 r2 = Some (Some w) -> matchb r1 w <> matchb r2 w.
Proof. intros He. apply (equiv_check_on_witness None f r1 r2 w He). Qed.

(** the witness in terms of [matches]: exactly one of the two matches [w] *)
Corollary equiv_check_witness_matches f r1 r2 w :
  equiv_check f r1 r2 = Some (Some w) ->
  (matches r1 w /\ ~ matches r2 w) \/ (~ matches r1 w /\ matches r2 w).
Proof.
  intros He. apply equiv_check_witness in He.
  destruct (matchb r1 w) eqn:E1; destruct (matchb r2 w) eqn:E2; try congruence.
  - left. split; [apply matchb_spec | apply matchb_false]; assumption.
  - right. split; [apply matchb_false | apply matchb_spec]; assumption.
Qed.

Definition is_code_point (c : N) : Prop := (c <= max_code_point)%N.

Theorem equiv_check_cp_sound f r1 r2 :
  equiv_check_cp f r1 r2 = Some None ->
  forall w, Forall is_code_point w -> (matches r1 w <-> matches r2 w).
Proof. intros He w Hw. apply (equiv_check_on_sound _ f r1 r2 He). exact Hw. Qed.

Theorem equiv_check_cp_witness f r1 r2 w :
  equiv_check_cp f r1 r2 = Some (Some w) ->
  matchb r1 w <> matchb r2 w /\ Forall is_code_point w.
Proof. intros He. apply (equiv_check_on_witness _ f r1 r2 w He). Qed.

(** ** Totality on single characters (C16: the catch-all matches every code point) *)

(** first representative code point that [r] does not match as a one-character word *)
Definition total_on_chars_cex (r : regex) : option N :=
  find (fun c => negb (nullable (deriv c r))) (reps_of (Some max_code_point) (bounds r)).

Definition total_on_chars_check (r : regex) : bool :=
  match total_on_chars_cex r with None => true | Some _ => false end.

Theorem total_on_chars_check_sound r :
  total_on_chars_check r = true -> forall c, is_code_point c -> matches r [c].
Proof.
  unfold total_on_chars_check, total_on_chars_cex. intros H c Hc.
  destruct (find _ _) eqn:E; [discriminate|].
  pose proof (find_none _ _ E (rep (bounds r) c)
                (rep_in_reps (Some max_code_point) (bounds r) c Hc)) as Hn.
  cbn beta in Hn. apply negb_false_iff in Hn. apply nullable_spec in Hn.
  apply deriv_spec. rewrite (deriv_uniform r c (rep (bounds r) c) (rep_same_side _ _)).
  assumption.
Qed.

Theorem total_on_chars_cex_sound r c :
  total_on_chars_cex r = Some c -> is_code_point c /\ ~ matches r [c].
Proof.
  unfold total_on_chars_cex. intros H. apply find_some in H. destruct H as [Hin Hn]. split.
  - apply (reps_of_ok _ _ _ Hin).
  - intros Hm. apply deriv_spec in Hm. apply nullable_spec in Hm. rewrite Hm in Hn. discriminate.
Qed.

Corollary total_on_chars_check_complete r :
  total_on_chars_check r = false -> exists c, is_code_point c /\ ~ matches r [c].
Proof.
  unfold total_on_chars_check. destruct (total_on_chars_cex r) as [c|] eqn:E; [|discriminate].
  intros _. exists c. apply total_on_chars_cex_sound. assumption.
Qed.

(** Some regex of a list matches every single code point (C16 for a whole scanner mode). *)
Definition total_on_chars_list_cex (rs : list regex) : option N :=
  total_on_chars_cex (fold_right Alt Empty rs).

Lemma matches_fold_Alt rs w : matches (fold_right Alt Empty rs) w <-> exists r, In r rs /\ matches r w.
Proof.
  induction rs as [|r rs IH]; cbn [fold_right].
  - rewrite matches_Empty_iff. split; [intros [] | intros [r [[] _]]].
  - rewrite matches_Alt_iff, IH. split.
    + intros [H|[q [Hq Hm]]]; [exists r; split; [left; reflexivity | assumption]
                              | exists q; split; [right|]; assumption].
    + intros [q [[Hq|Hq] Hm]]; [subst; left; assumption | right; exists q; auto].
Qed.

Theorem total_on_chars_list_sound rs :
  total_on_chars_list_cex rs = None ->
  forall c, is_code_point c -> exists r, In r rs /\ matches r [c].
Proof.
  unfold total_on_chars_list_cex. intros H c Hc. apply matches_fold_Alt.
  apply total_on_chars_check_sound; [|assumption].
  unfold total_on_chars_check. rewrite H. reflexivity.
Qed.

Theorem total_on_chars_list_cex_sound rs c :
  total_on_chars_list_cex rs = Some c ->
  is_code_point c /\ forall r, In r rs -> ~ matches r [c].
Proof.
  unfold total_on_chars_list_cex. intros H. apply total_on_chars_cex_sound in H.
  destruct H as [Hc Hn]. split; [assumption|]. intros r Hr Hm. apply Hn.
  apply matches_fold_Alt. exists r. auto.
Qed.

(** ** Examples *)

Definition not_ranges (lo hi : N) : list (N * N) :=   (* complement of [lo..hi], 0 < lo *)
  [(0%N, N.pred lo); (N.succ hi, max_code_point)].
Definition any_char : regex := Cls [(0%N, max_code_point)].

(* star of (a or b)  =  star of (star a, star b): equivalent *)
Example ex_equiv :
  equiv_check 100 (Star (Alt (rchar 97) (rchar 98)))
                  (Star (Cat (Star (rchar 97)) (Star (rchar 98)))) = Some None.
Proof. vm_compute. reflexivity. Qed.

(* a, star of ba  =  star of ab, a *)
Example ex_equiv2 :
  equiv_check_cp 100 (Cat (rchar 97) (Star (rstr [98; 97]%N)))
                     (Cat (Star (rstr [97; 98]%N)) (rchar 97)) = Some None.
Proof. vm_compute. reflexivity. Qed.

(* star a vs plus a: distinguished by the empty word *)
Example ex_witness : equiv_check 100 (Star (rchar 97)) (rplus (rchar 97)) = Some (Some []).
Proof. vm_compute. reflexivity. Qed.

Example ex_out_of_fuel :
  equiv_check 0 (Star (Alt (rchar 97) (rchar 98)))
                (Star (Cat (Star (rchar 97)) (Star (rchar 98)))) = None.
Proof. vm_compute. reflexivity. Qed.

(* C-style block comments as generated by parol:
     slash star, optional slash, star of ( [^slash] or [^star] slash ), star slash
   against "from slash-star to the first star-slash", written as
     slash star, star of ( [^star] or plus star [^star slash] ), plus star, slash.
   NOT equivalent (finding D6b of DESIGN.md). *)
Definition c_comment_parol : regex :=
  Cat (rstr [47; 42]%N)
      (Cat (ropt (rchar 47))
           (Cat (Star (Alt (Cls (not_ranges 47 47))
                           (Cat (Cls (not_ranges 42 42)) (rchar 47))))
                (rstr [42; 47]%N))).
Definition c_comment_spec : regex :=
  Cat (rstr [47; 42]%N)
      (Cat (Star (Alt (Cls (not_ranges 42 42))
                      (Cat (rplus (rchar 42))
                           (Cls [(0%N, 41%N); (43%N, 46%N); (48%N, max_code_point)]))))
           (Cat (rplus (rchar 42)) (rchar 47))).

Example ex_c_comment_differs :
  equiv_check_cp 200 c_comment_parol c_comment_spec = Some (Some [47; 42; 42; 47; 47; 42; 47]%N).
Proof. vm_compute. reflexivity. Qed.

(* the runtime's ERROR_TOKEN "." (regex-syntax: any char except line feed) is not total *)
Example ex_dot_not_total : total_on_chars_cex (Cls (not_ranges 10 10)) = Some 10%N.
Proof. vm_compute. reflexivity. Qed.
Example ex_any_total : total_on_chars_check any_char = true.
Proof. vm_compute. reflexivity. Qed.
Example ex_list_total :
  total_on_chars_list_cex [Cls (not_ranges 10 10); rstr [13; 10]%N; rchar 10] = None.
Proof. vm_compute. reflexivity. Qed.
Example ex_list_not_total :
  total_on_chars_list_cex [Cls (not_ranges 10 10); rstr [13; 10]%N] = Some 10%N.
Proof. vm_compute. reflexivity. Qed.

(* b and c lie in the same interval of the partition induced by [a-c]x, so the derivatives agree *)
Example ex_same_side : same_side (bounds (Cat (Cls [(97, 99)%N]) (rchar 120))) 98 99.
Proof. intros b Hb. cbn in Hb. destruct Hb as [<-|[<-|[<-|[<-|[]]]]]; reflexivity. Qed.

Print Assumptions deriv_uniform.
Print Assumptions equiv_check_sound.
Print Assumptions equiv_check_witness.
Print Assumptions equiv_check_cp_sound.
Print Assumptions equiv_check_cp_witness.
Print Assumptions total_on_chars_check_sound.
Print Assumptions total_on_chars_cex_sound.
Print Assumptions total_on_chars_list_sound.
Print Assumptions total_on_chars_list_cex_sound.
