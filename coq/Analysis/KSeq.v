(** * k-strings, FIRST_k / FOLLOW_k and strong LL(k) -- specification level (C05, C06).

    A k-string is a list of terminal numbers of length at most [k] in which the end-of-input
    marker [eoi] (terminal 0) may only occur as the last element.  FIRST_k and FOLLOW_k are
    defined *by derivations* (nothing algorithmic in this file):

      First k g α    = { firstn k w             | α ⇒* w }
      Follow k g a   = { firstn k (w ++ [eoi])  | S ⇒* β a γ  and  γ ⇒* w }

    Conventions fixed here (they are the ones of [/repo/crates/parol/src/analysis]):
    - a FIRST_k string is shorter than [k] only if [α] derives a terminal string shorter than [k];
    - a FOLLOW_k string that reaches the end of the input ends with [eoi] and is not padded;
    - [kconcat k u v] does not extend [u] when [u] already has [k] symbols or ends with [eoi].

    [kcat k u v = firstn k (u ++ v)] is the plain truncated concatenation; it coincides with
    [kconcat] whenever [u] contains no [eoi] ([kconcat_kcat]).  The recursion laws of FIRST and FOLLOW
    hold for [kcat] without any assumption on the grammar; with [kconcat] they need the grammar
    not to use terminal 0 ([First_app_kconcat]). *)
From Coq Require Import List NArith Bool Lia Arith.
From Parol Require Import Grammar.Cfg.
Import ListNotations.

Definition eoi : N := 0%N.

(** ** k-strings *)

Fixpoint ends_eoi (u : list N) : bool :=
  match u with
  | [] => false
  | x :: u' => match u' with [] => N.eqb x eoi | _ :: _ => ends_eoi u' end
  end.

(** [eoi] occurs at most as the last element. *)
Fixpoint eoi_lastb (u : list N) : bool :=
  match u with
  | [] => true
  | x :: u' => match u' with [] => true | _ :: _ => negb (N.eqb x eoi) && eoi_lastb u' end
  end.

Definition eoi_last (u : list N) : Prop :=
  forall pre post, u = pre ++ eoi :: post -> post = [].

Definition kstr (k : nat) (u : list N) : Prop := length u <= k /\ eoi_last u.
Definition kstrb (k : nat) (u : list N) : bool := (length u <=? k) && eoi_lastb u.

Lemma ends_eoi_spec u : ends_eoi u = true <-> exists pre, u = pre ++ [eoi].
Proof.
  induction u as [|x u IH].
  - simpl. split; [discriminate|]. intros (pre & H). destruct pre; discriminate.
  - destruct u as [|y u'].
    + simpl. rewrite N.eqb_eq. split.
      * intros ->. exists []. reflexivity.
      * intros (pre & H). destruct pre as [|z pre]; simpl in H.
        -- congruence.
        -- destruct pre; discriminate.
    + change (ends_eoi (x :: y :: u')) with (ends_eoi (y :: u')). rewrite IH. split.
      * intros (pre & H). exists (x :: pre). simpl. congruence.
      * intros (pre & H). destruct pre as [|z pre]; simpl in H; [discriminate|].
        exists pre. congruence.
Qed.

Lemma eoi_lastb_spec u : eoi_lastb u = true <-> eoi_last u.
Proof.
  unfold eoi_last. induction u as [|x u IH].
  - simpl. split; [|reflexivity]. intros _ pre post H. destruct pre; discriminate.
  - destruct u as [|y u'].
    + simpl. split; [|reflexivity]. intros _ pre post H.
      destruct pre as [|z pre]; simpl in H; [congruence|]. destruct pre; discriminate.
    + change (eoi_lastb (x :: y :: u')) with (negb (N.eqb x eoi) && eoi_lastb (y :: u')).
      rewrite andb_true_iff, negb_true_iff, N.eqb_neq, IH. split.
      * intros [Hx Hu] pre post H. destruct pre as [|z pre]; simpl in H.
        -- congruence.
        -- apply (Hu pre post). congruence.
      * intros H. split.
        -- intros ->. specialize (H [] (y :: u') eq_refl). discriminate.
        -- intros pre post E. apply (H (x :: pre) post). simpl. congruence.
Qed.

Lemma kstrb_spec k u : kstrb k u = true <-> kstr k u.
Proof. unfold kstrb, kstr. rewrite andb_true_iff, Nat.leb_le, eoi_lastb_spec. tauto. Qed.

Lemma ends_eoi_in u : ends_eoi u = true -> In eoi u.
Proof. intros H. apply ends_eoi_spec in H as (pre & ->). apply in_or_app. right. left. reflexivity. Qed.

(** ** Prefix and concatenation *)

Definition kprefix (k : nat) (w : list N) : list N := firstn k w.

(** Nothing can be appended to [u] any more. *)
Definition kcomplete (k : nat) (u : list N) : bool := ends_eoi u || (k <=? length u).

Definition kconcat (k : nat) (u v : list N) : list N :=
  if kcomplete k u then firstn k u else firstn k (u ++ v).

(** Plain truncated concatenation. *)
Definition kcat (k : nat) (u v : list N) : list N := firstn k (u ++ v).

Lemma firstn_app_long {A} k (u v : list A) : k <= length u -> firstn k (u ++ v) = firstn k u.
Proof.
  intros H. rewrite firstn_app. replace (k - length u) with 0 by lia.
  simpl. apply app_nil_r.
Qed.

Lemma firstn_firstn_app {A} k (u v : list A) : firstn k (firstn k u ++ v) = firstn k (u ++ v).
Proof.
  revert u. induction k as [|k IH]; intros u; [reflexivity|].
  destruct u as [|x u]; [reflexivity|]. simpl. f_equal. apply IH.
Qed.

Lemma firstn_app_firstn_le {A} (u v : list A) : forall k j, k <= j ->
  firstn k (u ++ firstn j v) = firstn k (u ++ v).
Proof.
  induction u as [|x u IH]; intros k j H; simpl.
  - rewrite firstn_firstn. f_equal. lia.
  - destruct k as [|k]; [reflexivity|]. simpl. f_equal. apply IH. lia.
Qed.

Lemma firstn_app_firstn {A} k (u v : list A) : firstn k (u ++ firstn k v) = firstn k (u ++ v).
Proof. apply firstn_app_firstn_le. lia. Qed.

Lemma kcat_firstn k u v : kcat k (firstn k u) (firstn k v) = firstn k (u ++ v).
Proof. unfold kcat. rewrite firstn_firstn_app, firstn_app_firstn. reflexivity. Qed.

Lemma kcat_long k u v : k <= length u -> kcat k u v = firstn k u.
Proof. apply firstn_app_long. Qed.

(** [kconcat] and [kcat] agree unless [u] ends prematurely with [eoi]. *)
Lemma kconcat_kcat k u v : ~ In eoi u -> kconcat k u v = kcat k u v.
Proof.
  intros Hu. unfold kconcat, kcat, kcomplete.
  destruct (ends_eoi u) eqn:E; [exfalso; apply Hu, ends_eoi_in, E|]. simpl.
  destruct (Nat.leb_spec k (length u)) as [H|H]; [|reflexivity].
  symmetry. apply firstn_app_long. exact H.
Qed.

Lemma kconcat_length k u v : length (kconcat k u v) <= k.
Proof. unfold kconcat. destruct (kcomplete k u); apply firstn_le_length. Qed.

Lemma kcat_length k u v : length (kcat k u v) <= k.
Proof. apply firstn_le_length. Qed.

Lemma eoi_last_firstn k u : eoi_last u -> eoi_last (firstn k u).
Proof.
  intros H pre post E. pose proof (firstn_skipn k u) as S. rewrite E in S.
  rewrite <- app_assoc in S. simpl in S. symmetry in S. apply H in S.
  destruct post; [reflexivity|discriminate].
Qed.

Lemma eoi_last_no_eoi u : eoi_last u -> ends_eoi u = false -> ~ In eoi u.
Proof.
  intros H E Hin. apply in_split in Hin as (pre & post & ->).
  pose proof (H pre post eq_refl) as ->.
  assert (ends_eoi (pre ++ [eoi]) = true) by (apply ends_eoi_spec; eauto). congruence.
Qed.

Lemma eoi_last_app u v : ~ In eoi u -> eoi_last v -> eoi_last (u ++ v).
Proof.
  intros Hu Hv pre post E. revert pre E. induction u as [|x u IH]; intros pre E; simpl in E.
  - apply (Hv pre post E).
  - destruct pre as [|z pre]; simpl in E.
    + exfalso. apply Hu. left. congruence.
    + apply (IH (fun H => Hu (or_intror H)) pre). congruence.
Qed.

(** [kconcat] keeps k-strings k-strings. *)
Lemma kconcat_kstr k u v : eoi_last u -> eoi_last v -> kstr k (kconcat k u v).
Proof.
  intros Hu Hv. split; [apply kconcat_length|]. unfold kconcat, kcomplete.
  destruct (ends_eoi u) eqn:E; simpl.
  - apply eoi_last_firstn, Hu.
  - destruct (k <=? length u); apply eoi_last_firstn; [exact Hu|].
    apply eoi_last_app; [apply eoi_last_no_eoi; assumption|exact Hv].
Qed.

(** ** Sets of strings (as predicates) *)

Definition kconcat_sets (k : nat) (A B : list N -> Prop) (w : list N) : Prop :=
  exists u v, A u /\ B v /\ w = kconcat k u v.

Definition kcat_sets (k : nat) (A B : list N -> Prop) (w : list N) : Prop :=
  exists u v, A u /\ B v /\ w = kcat k u v.

(** ** Sentential-form derivations (small-step) *)

Inductive sstep (g : cfg) : list sym -> list sym -> Prop :=
| sstep_intro β a γ p :
    In p (prods g) -> lhs p = a -> sstep g (β ++ NT a :: γ) (β ++ rhs p ++ γ).

(** Reflexive-transitive closure, new steps added at the end. *)
Inductive sderives (g : cfg) : list sym -> list sym -> Prop :=
| sd_refl σ : sderives g σ σ
| sd_step σ σ' σ'' : sderives g σ σ' -> sstep g σ' σ'' -> sderives g σ σ''.

Lemma sderives_trans g σ1 σ2 σ3 : sderives g σ1 σ2 -> sderives g σ2 σ3 -> sderives g σ1 σ3.
Proof.
  intros H12 H23. induction H23 as [|σ2 σ σ3 _ IH Hs]; [exact H12|].
  eapply sd_step; [apply IH; exact H12|exact Hs].
Qed.

Lemma sstep_context g β γ σ σ' : sstep g σ σ' -> sstep g (β ++ σ ++ γ) (β ++ σ' ++ γ).
Proof.
  intros [β0 a γ0 p Hin Hl].
  replace (β ++ (β0 ++ NT a :: γ0) ++ γ) with ((β ++ β0) ++ NT a :: (γ0 ++ γ))
    by (repeat rewrite <- app_assoc; reflexivity).
  replace (β ++ (β0 ++ rhs p ++ γ0) ++ γ) with ((β ++ β0) ++ rhs p ++ (γ0 ++ γ))
    by (repeat rewrite <- app_assoc; reflexivity).
  constructor; assumption.
Qed.

Lemma sderives_context g β γ σ σ' : sderives g σ σ' -> sderives g (β ++ σ ++ γ) (β ++ σ' ++ γ).
Proof.
  induction 1 as [|σ σ' σ'' _ IH Hs]; [constructor|].
  eapply sd_step; [exact IH|apply sstep_context, Hs].
Qed.

(** Small-step and big-step derivations agree. *)
Lemma sstep_derives g σ σ' w : sstep g σ σ' -> derives g σ' w -> derives g σ w.
Proof.
  intros [β a γ p Hin Hl] H.
  apply derives_app_inv in H as (u & v & -> & Hu & Hv).
  apply derives_app_inv in Hv as (v1 & v2 & -> & Hv1 & Hv2).
  apply derives_app; [exact Hu|]. econstructor; eassumption.
Qed.

Lemma sderives_derives g σ σ' w : sderives g σ σ' -> derives g σ' w -> derives g σ w.
Proof.
  induction 1 as [|σ σ' σ'' _ IH Hs]; intros H; [exact H|].
  apply IH. eapply sstep_derives; eassumption.
Qed.

Lemma derives_sderives g α w : derives g α w -> sderives g α (map T w).
Proof.
  induction 1 as [|t α w _ IH|a p α u v Hin Hl _ IHr _ IHa].
  - constructor.
  - apply (sderives_context g [T t] [] α (map T w)) in IH.
    simpl in IH. rewrite !app_nil_r in IH. exact IH.
  - rewrite map_app.
    pose proof (sderives_context g (map T u) [] α (map T v) IHa) as H1.
    rewrite !app_nil_r in H1.
    pose proof (sderives_context g [] α (rhs p) (map T u) IHr) as H2. simpl in H2.
    eapply sderives_trans; [|exact H1]. eapply sderives_trans; [|exact H2].
    eapply sd_step; [apply sd_refl|].
    apply (sstep_intro g [] a α p Hin Hl).
Qed.

Lemma sderives_lang g w : sderives g [NT (start g)] (map T w) <-> lang g w.
Proof.
  split.
  - intros H. eapply sderives_derives; [exact H|apply derives_terminals].
  - apply derives_sderives.
Qed.

(** ** FIRST_k, FOLLOW_k, strong LL(k) *)

Definition First (k : nat) (g : cfg) (α : list sym) (u : list N) : Prop :=
  exists w, derives g α w /\ u = firstn k w.

Definition Follow (k : nat) (g : cfg) (a : N) (u : list N) : Prop :=
  exists β γ w,
    sderives g [NT (start g)] (β ++ NT a :: γ) /\ derives g γ w /\ u = firstn k (w ++ [eoi]).

(** Lookahead set of production [p] of non-terminal [a]: FIRST_k(rhs p) ·k FOLLOW_k(a). *)
Definition LA (k : nat) (g : cfg) (a : N) (p : prod) : list N -> Prop :=
  kconcat_sets k (First k g (rhs p)) (Follow k g a).

(** Strong LL(k) for one non-terminal: productions at different positions have disjoint
    lookahead sets. *)
Definition SLL (k : nat) (g : cfg) (a : N) : Prop :=
  forall i j p q, i <> j ->
    nth_error (prods_of g a) i = Some p -> nth_error (prods_of g a) j = Some q ->
    forall w, LA k g a p w -> LA k g a q w -> False.

(** *** Recursion laws of FIRST_k *)

Lemma First_nil k g u : First k g [] u <-> u = [].
Proof.
  split.
  - intros (w & H & ->). inversion H. destruct k; reflexivity.
  - intros ->. exists []. split; [constructor|destruct k; reflexivity].
Qed.

Lemma First_app k g α β u :
  First k g (α ++ β) u <-> kcat_sets k (First k g α) (First k g β) u.
Proof.
  split.
  - intros (w & H & ->). apply derives_app_inv in H as (x & y & -> & Hx & Hy).
    exists (firstn k x), (firstn k y). repeat split; [exists x|exists y|]; auto.
    symmetry. apply kcat_firstn.
  - intros (x' & y' & (x & Hx & ->) & (y & Hy & ->) & ->).
    exists (x ++ y). split; [apply derives_app; assumption|apply kcat_firstn].
Qed.

Lemma First_T k g t u : First k g [T t] u <-> u = firstn k [t].
Proof.
  split.
  - intros (w & H & ->). inversion H as [|t' α w' H'|]; subst. inversion H'. reflexivity.
  - intros ->. exists [t]. split; [repeat constructor|reflexivity].
Qed.

Lemma First_NT k g a u :
  First k g [NT a] u <-> exists p, In p (prods g) /\ lhs p = a /\ First k g (rhs p) u.
Proof.
  split.
  - intros (w & H & ->). apply derives_single in H as (p & Hin & Hl & Hr).
    exists p. repeat split; auto. exists w. auto.
  - intros (p & Hin & Hl & w & Hr & ->). exists w. split; [|reflexivity].
    apply derives_single. eauto.
Qed.

Lemma First_cons k g s α u :
  First k g (s :: α) u <-> kcat_sets k (First k g [s]) (First k g α) u.
Proof. apply (First_app k g [s] α u). Qed.

Lemma First_kstr_len k g α u : First k g α u -> length u <= k.
Proof. intros (w & _ & ->). apply firstn_le_length. Qed.

(** A short FIRST_k string is a complete derived string. *)
Lemma First_short k g α u : First k g α u -> length u < k -> derives g α u.
Proof.
  intros (w & H & ->) Hl. destruct (Nat.le_gt_cases (length w) k) as [L|L].
  - rewrite firstn_all2 by exact L. exact H.
  - rewrite firstn_length_le in Hl by lia. lia.
Qed.

(** Terminal strings derived by a grammar use only its terminals. *)
Lemma derives_terminals_in g α w :
  derives g α w -> forall t, In t w -> In t (rhs_ts α) \/ In t (terminals g).
Proof.
  induction 1 as [|t0 α w _ IH|a p α u v Hin Hl _ IHr _ IHa]; intros t Ht.
  - destruct Ht.
  - destruct Ht as [<-|Ht]; [left; left; reflexivity|].
    destruct (IH t Ht) as [H|H]; [left; right; exact H|right; exact H].
  - apply in_app_or in Ht as [Ht|Ht].
    + right. destruct (IHr t Ht) as [H|H]; [|exact H].
      unfold terminals. apply in_flat_map. exists p. split; assumption.
    + destruct (IHa t Ht) as [H|H]; [left; exact H|right; exact H].
Qed.

(** Grammars that do not use terminal 0 (all generated grammars: user terminals start at 5). *)
Definition eoi_free (g : cfg) : bool := forallb (fun t => negb (N.eqb t eoi)) (terminals g).

Lemma First_no_eoi k g α u :
  eoi_free g = true -> ~ In eoi (rhs_ts α) -> First k g α u -> ~ In eoi u.
Proof.
  intros Hg Ha (w & H & ->) Hin.
  assert (Hw : In eoi w).
  { rewrite <- (firstn_skipn k w). apply in_or_app. left. exact Hin. }
  destruct (derives_terminals_in g α w H eoi Hw) as [H1|H1]; [exact (Ha H1)|].
  unfold eoi_free in Hg. rewrite forallb_forall in Hg. specialize (Hg eoi H1).
  rewrite N.eqb_refl in Hg. discriminate.
Qed.

(** With the grammar free of terminal 0 the FIRST equation also holds for [kconcat]
    (the operation the Rust code uses). *)
Lemma First_app_kconcat k g α β u :
  eoi_free g = true -> ~ In eoi (rhs_ts α) ->
  (First k g (α ++ β) u <-> kconcat_sets k (First k g α) (First k g β) u).
Proof.
  intros Hg Ha. rewrite First_app. split; intros (x & y & Hx & Hy & ->); exists x, y;
    repeat split; auto; [symmetry|]; apply kconcat_kcat; eapply First_no_eoi; eauto.
Qed.

(** *** Recursion laws of FOLLOW_k *)

Lemma Follow_start k g : Follow k g (start g) (firstn k [eoi]).
Proof. exists [], [], []. repeat split; constructor. Qed.

Lemma Follow_prod k g p α b γ x v :
  In p (prods g) -> rhs p = α ++ NT b :: γ ->
  First k g γ x -> Follow k g (lhs p) v -> Follow k g b (kcat k x v).
Proof.
  intros Hin Hr (w1 & Hw1 & ->) (β' & γ' & w' & Hs & Hw' & ->).
  exists (β' ++ α), (γ ++ γ'), (w1 ++ w'). repeat split.
  - eapply sd_step; [exact Hs|].
    replace ((β' ++ α) ++ NT b :: γ ++ γ') with (β' ++ rhs p ++ γ')
      by (rewrite Hr; repeat rewrite <- app_assoc; reflexivity).
    constructor; auto.
  - apply derives_app; assumption.
  - unfold kcat. rewrite firstn_firstn_app, firstn_app_firstn, app_assoc. reflexivity.
Qed.

(** Where can a symbol occurrence of [σ1 ++ r ++ σ2] lie? *)
Lemma split_occurrence {A} (x : A) r σ2 : forall σ1 β γ,
  σ1 ++ r ++ σ2 = β ++ x :: γ ->
  (exists γ1, σ1 = β ++ x :: γ1 /\ γ = γ1 ++ r ++ σ2) \/
  (exists α γ', r = α ++ x :: γ' /\ β = σ1 ++ α /\ γ = γ' ++ σ2) \/
  (exists β2, σ2 = β2 ++ x :: γ /\ β = σ1 ++ r ++ β2).
Proof.
  intros σ1 β γ E. apply app_eq_app in E as (l & [[E1 E2]|[E1 E2]]).
  - destruct l as [|y l]; simpl in E2.
    + rewrite app_nil_r in E1. subst σ1.
      (* the occurrence starts exactly at [r ++ σ2] *)
      destruct r as [|z r]; simpl in E2.
      * right. right. exists []. subst σ2. simpl. rewrite app_nil_r. split; reflexivity.
      * right. left. inversion E2; subst. exists [], r. simpl. rewrite app_nil_r.
        repeat split; reflexivity.
    + inversion E2; subst. left. exists l. split; reflexivity.
  - subst β. apply app_eq_app in E2 as (l' & [[E3 E4]|[E3 E4]]).
    + destruct l' as [|y l']; simpl in E4.
      * rewrite app_nil_r in E3. subst r.
        right. right. exists []. subst σ2. simpl. rewrite app_nil_r. split; reflexivity.
      * inversion E4; subst. right. left. exists l, l'. repeat split; reflexivity.
    + subst l. right. right. exists l'. split; [assumption|reflexivity].
Qed.

(** Induction principle for FOLLOW_k: a family of sets that contains the end marker for the
    start symbol and is closed under the production rule contains FOLLOW_k. *)
Lemma Follow_least k g (X : N -> list N -> Prop) :
  X (start g) (firstn k [eoi]) ->
  (forall p α b γ x v, In p (prods g) -> rhs p = α ++ NT b :: γ ->
     First k g γ x -> X (lhs p) v -> X b (kcat k x v)) ->
  forall a u, Follow k g a u -> X a u.
Proof.
  intros Hstart Hclosed a u (β & γ & w & Hs & Hw & ->).
  remember [NT (start g)] as σ0 eqn:E0. remember (β ++ NT a :: γ) as σ eqn:E.
  revert a β γ w E Hw. induction Hs as [σ|σ σ' σ'' Hs IH Hstep]; intros a β γ w E Hw.
  - subst σ. destruct β as [|s β]; simpl in E.
    + inversion E; subst. inversion Hw; subst. exact Hstart.
    + inversion E as [[E1 E2]]. destruct β; discriminate.
  - specialize (IH E0). destruct Hstep as [σ1 b σ2 p Hin Hl].
    apply split_occurrence in E as [(γ1 & -> & ->)|[(α & γ' & Hr & -> & ->)|(β2 & -> & ->)]].
    + apply (IH a β (γ1 ++ NT b :: σ2) w).
      * rewrite <- app_assoc. reflexivity.
      * apply derives_app_inv in Hw as (w1 & w2 & -> & Hw1 & Hw2).
        apply derives_app_inv in Hw2 as (w3 & w4 & -> & Hw3 & Hw4).
        apply derives_app; [exact Hw1|]. econstructor; eassumption.
    + apply derives_app_inv in Hw as (w1 & w2 & -> & Hw1 & Hw2).
      assert (HX : X b (firstn k (w2 ++ [eoi]))) by (apply (IH b σ1 σ2 w2); auto).
      rewrite <- Hl in HX.
      pose proof (Hclosed p α a γ' (firstn k w1) _ Hin Hr (ex_intro _ w1 (conj Hw1 eq_refl)) HX)
        as H.
      unfold kcat in H. rewrite firstn_firstn_app, firstn_app_firstn, app_assoc in H. exact H.
    + apply (IH a (σ1 ++ NT b :: β2) γ w); [|exact Hw].
      rewrite <- app_assoc. reflexivity.
Qed.

(** Non-terminals occurring in FOLLOW contexts belong to the grammar. *)
Lemma rhs_nts_in r a : In a (rhs_nts r) <-> In (NT a) r.
Proof.
  unfold rhs_nts. rewrite in_flat_map. split.
  - intros ([t|b] & Hin & H); simpl in H; [destruct H|]. destruct H as [<-|[]]. exact Hin.
  - intros H. exists (NT a). split; [exact H|left; reflexivity].
Qed.

Lemma lhs_in_nts g p : In p (prods g) -> In (lhs p) (nts g).
Proof.
  intros H. unfold nts. right. apply in_flat_map. exists p. split; [exact H|left; reflexivity].
Qed.

Lemma rhs_in_nts g p a : In p (prods g) -> In (NT a) (rhs p) -> In a (nts g).
Proof.
  intros H Ha. unfold nts. right. apply in_flat_map. exists p. split; [exact H|].
  right. apply rhs_nts_in. exact Ha.
Qed.

(** *** Small sanity examples *)

Example kconcat_ex1 : kconcat 3 [5; 6]%N [7; 8]%N = [5; 6; 7]%N.
Proof. reflexivity. Qed.
Example kconcat_ex2 : kconcat 3 [5; 0]%N [7; 8]%N = [5; 0]%N.
Proof. reflexivity. Qed.
Example kconcat_ex3 : kconcat 2 [5; 6; 7]%N [8]%N = [5; 6]%N.
Proof. reflexivity. Qed.
Example kcat_differs : kcat 3 [5; 0]%N [7; 8]%N = [5; 0; 7]%N.
Proof. reflexivity. Qed.
Example kstrb_ex : kstrb 3 [5; 0]%N = true /\ kstrb 3 [0; 5]%N = false /\ kstrb 1 [5; 6]%N = false.
Proof. repeat split. Qed.

Print Assumptions First_app.
Print Assumptions First_app_kconcat.
Print Assumptions Follow_prod.
Print Assumptions Follow_least.
Print Assumptions kconcat_kstr.
Print Assumptions sderives_lang.
