(** Property C10 — Left factoring preserves the language and removes shared prefixes.
    Pinned statements only; proofs in Transform/LeftFactorProofs.v about the faithful model
    Transform/LeftFactor.v of left_factor / find_prefix / find_longest_prefix / factor_out_rule /
    mod_factor, with the HashMap iteration orders as ORACLE parameters [o] and generate_name as a
    name supply [fresh] of which only freshness is assumed.  All theorems hold for every oracle. *)
From Coq Require Import List NArith.
From Parol Require Import Grammar.Cfg Transform.LeftFactor Transform.LeftFactorProofs.
Import ListNotations.

Section C10.
Variable fresh : N -> list N -> N.
Hypothesis fresh_ok : forall a excl, ~ In (fresh a excl) excl.

Theorem C10_terminates : forall (o : oracle) g fuel,
  lf_fuel g <= fuel -> left_factor fresh o fuel g <> None.
Proof. exact (lf_terminates_fuel fresh fresh_ok). Qed.

Theorem C10_preserves_lang : forall (o : oracle) fuel g g',
  In (start g) (pr_nts (prods g)) ->
  left_factor fresh o fuel g = Some g' ->
  start g' = start g /\
  (forall a, In a (nts g) -> forall w, derives g' [NT a] w <-> derives g [NT a] w) /\
  (forall w, lang g' w <-> lang g w).
Proof. exact (lf_preserves_lang_nts fresh fresh_ok). Qed.

Theorem C10_result_prefix_free : forall (o : oracle) fuel g g',
  left_factor fresh o fuel g = Some g' ->
  forall a p q, In p (prods_of g' a) -> In q (prods_of g' a) -> p <> q ->
  rhs p <> [] -> rhs q <> [] -> hd_error (rhs p) <> hd_error (rhs q).
Proof. exact (lf_result_prefix_free fresh fresh_ok). Qed.

Theorem C10_fresh : forall (o : oracle) fuel g g',
  left_factor fresh o fuel g = Some g' ->
  exists news, lf_reach (prods g) news (prods g') /\ NoDup news /\
    (forall a, In a news -> ~ In a (pr_nts (prods g))) /\
    (forall b, In b (pr_nts (prods g')) <-> In b (pr_nts (prods g)) \/ In b news) /\
    (forall b, In b (map lhs (prods g')) -> In b (map lhs (prods g)) \/ In b news).
Proof. exact (lf_fresh fresh fresh_ok). Qed.

Theorem C10_model_passes_check : forall (o : oracle) fuel g g',
  In (start g) (pr_nts (prods g)) ->
  left_factor fresh o fuel g = Some g' -> lf_check g g' = true.
Proof. exact (lf_model_passes_check fresh fresh_ok). Qed.
End C10.

(** Meaning of the checker applied to the real output. *)
Theorem C10_check_spec : forall g g',
  lf_check g g' = true <->
  start g' = start g /\ prefix_free g' /\
  (forall p, In p (prods g') -> ~ In (lhs p) (map lhs (prods g)) -> ~ In (lhs p) (nts g)).
Proof. exact lf_check_spec. Qed.

(** Whatever the hash orders, the language of the result is the same (determinism of the TEXT
    is property C24). *)
Theorem C10_order_indep_lang : forall fresh1 fresh2 (o1 o2 : oracle) f1 f2 g g1 g2,
  (forall a excl, ~ In (fresh1 a excl) excl) -> (forall a excl, ~ In (fresh2 a excl) excl) ->
  left_factor fresh1 o1 f1 g = Some g1 -> left_factor fresh2 o2 f2 g = Some g2 ->
  start g1 = start g2 /\
  (forall a, In a (pr_nts (prods g)) -> forall w, derives g1 [NT a] w <-> derives g2 [NT a] w).
Proof. exact lf_order_indep_lang. Qed.
