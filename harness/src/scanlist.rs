//! `pv scanlist <generated_parser.rs>`: the `token r"…" => N;` entries of the (first mode of the)
//! `scanner! { … }` block of a generated parser, with each pattern translated to the S-expression
//! form of the Gallina regex type. Used by the translator tools/gen_consts.py.
use crate::{rx, sx};

pub fn run(a: &crate::Args) {
    let path = a.rest.first().expect("file");
    let src = std::fs::read_to_string(path).expect("read");
    let start = src.find("scanner! {").expect("scanner! block");
    let block = &src[start..];
    for line in block.lines() {
        let l = line.trim();
        if l.starts_with('}') && line.starts_with('}') {
            break;
        }
        if !l.starts_with("token ") {
            continue;
        }
        // token r"…" => N;   or   token r#"…"# => N;
        let rest = &l[6..];
        let (pat, after) = if let Some(r) = rest.strip_prefix("r#\"") {
            let e = r.find("\"#").unwrap();
            (&r[..e], &r[e + 2..])
        } else if let Some(r) = rest.strip_prefix("r\"") {
            let e = r.find('"').unwrap();
            (&r[..e], &r[e + 1..])
        } else {
            continue;
        };
        let num: String = after.chars().skip_while(|c| !c.is_ascii_digit()).take_while(|c| c.is_ascii_digit()).collect();
        let t = rx::translate(pat).unwrap_or_else(|e| format!("(unsupported {})", sx::s(&e)));
        println!("(tok {} {} {})", num, sx::s(pat), t);
    }
}
