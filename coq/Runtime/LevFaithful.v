(** * Faithful executable model of [Recovery::levenshtein_distance]
    (crates/parol_runtime/src/parser/recovery.rs) and the proof that its answer always
    passes the checker [lev_check] of [Runtime/Levenshtein.v] (property C31).

    The Rust code:
    - three early returns (both empty; [act] empty; [exp] empty);
    - two [(n+1) x (m+1)] matrices [d] and [ops] indexed by PREFIX lengths; we keep them as one
      matrix of cells [(d[i][j], ops[i][j])], a list of rows, row [i] = cells for [j = 0..m];
    - first column [(i, Delete)], then first row [(j, Insert)] (so cell (0,0) ends up [Insert]);
    - cell rule: equal tokens => [d[i-1][j-1]], [Keep]; otherwise start with Delete
      ([d[i-1][j]+1]), switch to Insert only if strictly smaller, then to Replace only if
      strictly smaller;
    - back-tracking loop from [(n, m)] following [ops], pushing each op, result reversed.  *)
From Coq Require Import List Arith NArith Lia Bool.
From Parol Require Import Runtime.Levenshtein.
Import ListNotations.

(** ** The model *)

Definition cell := (nat * op)%type.

(** Body of the inner loop for one cell: [up = d[i-1][j]], [left = d[i][j-1]],
    [diag = d[i-1][j-1]], [x = act[i-1]], [y = exp[j-1]]. *)
Definition step_cell (x y : N) (up left diag : nat) : cell :=
  if N.eqb x y then (diag, Keep)
  else
    let c1 := (up + 1, Delete) in
    let c2 := if left + 1 <? fst c1 then (left + 1, Insert) else c1 in
    let c3 := if diag + 1 <? fst c2 then (diag + 1, Replace) else c2 in
    c3.

(** Inner loop [for j in 1..=m] of row [i]: [exp] = the tokens [exp[j-1..]] still to process,
    [diag = d[i-1][j-1]], [left = d[i][j-1]], [ups] = the cells [(i-1, j..)] of the previous row.
    [None] = the previous row is too short/long (index out of range in the Rust). *)
Fixpoint fill_row (x : N) (exp : list N) (diag left : nat) (ups : list cell)
  : option (list cell) :=
  match exp with
  | [] => match ups with [] => Some [] | _ :: _ => None end
  | y :: exp' =>
      match ups with
      | [] => None
      | (u, _) :: ups' =>
          let c := step_cell x y u left diag in
          match fill_row x exp' u (fst c) ups' with
          | None => None
          | Some r => Some (c :: r)
          end
      end
  end.

(** Outer loop [for i in 1..=n]: [act] = the tokens [act[i-1..]] still to process, [prev] = row
    [i-1].  Cell [(i,0)] is [(i, Delete)] (first initialisation loop). Returns rows [i..n]. *)
Fixpoint fill_rows (act exp : list N) (i : nat) (prev : list cell)
  : option (list (list cell)) :=
  match act with
  | [] => Some []
  | x :: act' =>
      match prev with
      | [] => None
      | (d0, _) :: ups =>
          match fill_row x exp d0 i ups with
          | None => None
          | Some r =>
              let row := (i, Delete) :: r in
              match fill_rows act' exp (S i) row with
              | None => None
              | Some rows => Some (row :: rows)
              end
          end
      end
  end.

(** Row 0 after both initialisation loops: [(j, Insert)] for [j = 0..m]
    (the second loop overwrites cell (0,0) with [Insert]). *)
Definition row0 (m : nat) : list cell := map (fun j => (j, Insert)) (seq 0 (S m)).

Definition lookup (mat : list (list cell)) (i j : nat) : option cell :=
  match nth_error mat i with
  | Some r => nth_error r j
  | None => None
  end.

(** The index updates of the back-tracking [match]; [None] = [usize] underflow. *)
Definition back_step (o : op) (i j : nat) : option (nat * nat) :=
  match o with
  | Keep | Replace =>
      match i, j with S i', S j' => Some (i', j') | _, _ => None end
  | Insert => match j with S j' => Some (i, j') | 0 => None end
  | Delete => match i with S i' => Some (i', j) | 0 => None end
  end.

(** [while i > 0 || j > 0 { ... }]; returns [result_ops] in push order (before the final
    [reverse]).  [None] = out of fuel, index out of range or underflow. *)
Fixpoint backtrack (fuel : nat) (mat : list (list cell)) (i j : nat) : option (list op) :=
  if (0 <? i) || (0 <? j) then
    match fuel with
    | 0 => None
    | S f =>
        match lookup mat i j with
        | None => None
        | Some (_, o) =>
            match back_step o i j with
            | None => None
            | Some (i', j') =>
                match backtrack f mat i' j' with
                | None => None
                | Some ps => Some (o :: ps)
                end
            end
        end
    end
  else Some [].

(** The part of the function after the early returns. *)
Definition lev_matrix (act exp : list N) : option (nat * list op) :=
  let n := length act in
  let m := length exp in
  let r0 := row0 m in
  match fill_rows act exp 1 r0 with
  | None => None
  | Some rows =>
      let mat := r0 :: rows in
      match backtrack (n + m + 1) mat n m with
      | None => None
      | Some ps =>
          match lookup mat n m with
          | Some (d, _) => Some (d, rev ps)
          | None => None
          end
      end
  end.

(** The whole function; [None] would be a Rust panic (proved impossible below). *)
Definition lev_opt (act exp : list N) : option (nat * list op) :=
  match act, exp with
  | [], [] => Some (0, [])
  | [], _ :: _ => Some (length exp, repeat Insert (length exp))
  | _ :: _, [] => Some (length act, repeat Delete (length act))
  | _ :: _, _ :: _ => lev_matrix act exp
  end.

(** ** Specification of the matrix: cell (i,j) speaks about the prefixes of length i and j *)

Definition Dr (a b : list N) : nat := D (rev a) (rev b).

Lemma Dr_nil_l b : Dr [] b = length b.
Proof. unfold Dr. cbn [rev]. rewrite D_nil_l. apply rev_length. Qed.

Lemma Dr_nil_r a : Dr a [] = length a.
Proof. unfold Dr. cbn [rev]. rewrite D_nil_r. apply rev_length. Qed.

Lemma Dr_snoc_same a b x : Dr (a ++ [x]) (b ++ [x]) = Dr a b.
Proof. unfold Dr. rewrite !rev_unit. apply D_same. Qed.

Lemma Dr_snoc_diff a b x y : N.eqb x y = false ->
  Dr (a ++ [x]) (b ++ [y]) = S (min3 (Dr a (b ++ [y])) (Dr (a ++ [x]) b) (Dr a b)).
Proof. intros E. unfold Dr. rewrite !rev_unit. apply D_diff. exact E. Qed.

(** [step_ok o a b]: following [o] backwards from the cell for prefixes [(a, b)] is possible
    and accounts exactly for the difference of the distances. *)
Definition step_ok (o : op) (a b : list N) : Prop :=
  match o with
  | Keep => exists a' b' x, a = a' ++ [x] /\ b = b' ++ [x] /\ Dr a b = Dr a' b'
  | Replace => exists a' b' x y, a = a' ++ [x] /\ b = b' ++ [y] /\ Dr a b = S (Dr a' b')
  | Insert => exists b' y, b = b' ++ [y] /\ Dr a b = S (Dr a b')
  | Delete => exists a' x, a = a' ++ [x] /\ Dr a b = S (Dr a' b)
  end.

Definition cell_ok (a b : list N) (c : cell) : Prop :=
  fst c = Dr a b /\ ((a = [] /\ b = []) \/ step_ok (snd c) a b).

Lemma step_cell_ok a' s x y u left diag :
  u = Dr a' (s ++ [y]) -> left = Dr (a' ++ [x]) s -> diag = Dr a' s ->
  cell_ok (a' ++ [x]) (s ++ [y]) (step_cell x y u left diag).
Proof.
  intros Hu Hl Hd. unfold step_cell.
  destruct (N.eqb x y) eqn:E.
  - apply N.eqb_eq in E. subst y. split; cbn [fst snd].
    + rewrite Dr_snoc_same. exact Hd.
    + right. exists a', s, x. repeat split. apply Dr_snoc_same.
  - pose proof (Dr_snoc_diff a' s x y E) as HD. unfold min3 in HD.
    cbv zeta. cbn [fst].
    destruct (Nat.ltb_spec (left + 1) (u + 1)) as [H1|H1]; cbn [fst];
      match goal with |- context [?p <? ?q] => destruct (Nat.ltb_spec p q) as [H2|H2] end;
      (split; cbn [fst snd]; [lia|right; cbn [step_ok]]).
    + exists a', s, x, y. repeat split. lia.
    + exists s, y. split; [reflexivity|lia].
    + exists a', s, x, y. repeat split. lia.
    + exists a', x. split; [reflexivity|lia].
Qed.

(** Cells [cs] are the cells of the row for [a] at columns [s++[y1]], [s++[y1;y2]], ... *)
Fixpoint row_ok (a s rest : list N) (cs : list cell) : Prop :=
  match rest, cs with
  | [], [] => True
  | y :: rest', c :: cs' => cell_ok a (s ++ [y]) c /\ row_ok a (s ++ [y]) rest' cs'
  | _, _ => False
  end.

Definition full_row_ok (a exp : list N) (r : list cell) : Prop :=
  match r with
  | c0 :: cs => cell_ok a [] c0 /\ row_ok a [] exp cs
  | [] => False
  end.

Fixpoint rows_ok (a ract exp : list N) (rows : list (list cell)) : Prop :=
  match ract, rows with
  | [], [] => True
  | x :: ra, r :: rows' => full_row_ok (a ++ [x]) exp r /\ rows_ok (a ++ [x]) ra exp rows'
  | _, _ => False
  end.

Definition mat_ok (a ract exp : list N) (mat : list (list cell)) : Prop :=
  match mat with
  | r :: rows => full_row_ok a exp r /\ rows_ok a ract exp rows
  | [] => False
  end.

Lemma fill_row_ok a' x : forall rest s ups diag left,
  row_ok a' s rest ups -> diag = Dr a' s -> left = Dr (a' ++ [x]) s ->
  exists r, fill_row x rest diag left ups = Some r /\ row_ok (a' ++ [x]) s rest r.
Proof.
  induction rest as [|y rest IH]; intros s ups diag left Hups Hd Hl.
  - destruct ups as [|c ups]; [|contradiction]. exists []. split; [reflexivity|exact I].
  - destruct ups as [|[u uo] ups]; [contradiction|].
    cbn [row_ok] in Hups. destruct Hups as [[Hu _] Hups]. cbn [fst] in Hu.
    cbn [fill_row].
    assert (Hc : cell_ok (a' ++ [x]) (s ++ [y]) (step_cell x y u left diag))
      by (apply step_cell_ok; assumption).
    destruct (IH (s ++ [y]) ups u (fst (step_cell x y u left diag)) Hups Hu (proj1 Hc))
      as [r [Hr Hok]].
    rewrite Hr. eexists. split; [reflexivity|]. cbn [row_ok]. split; assumption.
Qed.

Lemma fill_rows_ok exp : forall ract a prev i,
  full_row_ok a exp prev -> i = S (length a) ->
  exists rows, fill_rows ract exp i prev = Some rows /\ rows_ok a ract exp rows.
Proof.
  induction ract as [|x ract IH]; intros a prev i Hprev Hi.
  - exists []. split; [reflexivity|exact I].
  - destruct prev as [|[d0 o0] ups]; [contradiction|].
    cbn [full_row_ok] in Hprev. destruct Hprev as [[Hd0 _] Hups]. cbn [fst] in Hd0.
    cbn [fill_rows].
    assert (Hlen : Dr (a ++ [x]) [] = i).
    { rewrite Dr_nil_r, app_length. cbn [length]. lia. }
    destruct (fill_row_ok a x exp [] ups d0 i Hups Hd0 (eq_sym Hlen)) as [r [Hr Hok]].
    rewrite Hr.
    assert (Hrow : full_row_ok (a ++ [x]) exp ((i, Delete) :: r)).
    { cbn [full_row_ok]. split; [|exact Hok]. split; cbn [fst snd].
      - symmetry. exact Hlen.
      - right. exists a, x. split; [reflexivity|].
        rewrite Hlen, Dr_nil_r in *. lia. }
    destruct (IH (a ++ [x]) ((i, Delete) :: r) (S i) Hrow) as [rows [Hrows Hrok]].
    { rewrite app_length. cbn [length]. lia. }
    rewrite Hrows. eexists. split; [reflexivity|]. cbn [rows_ok]. split; assumption.
Qed.

Lemma row0_tail_ok : forall rest s,
  row_ok [] s rest (map (fun j => (j, Insert)) (seq (S (length s)) (length rest))).
Proof.
  induction rest as [|y rest IH]; intros s; cbn [length seq map row_ok]; [exact I|].
  split.
  - split; cbn [fst snd].
    + rewrite Dr_nil_l, app_length. cbn [length]. lia.
    + right. exists s, y. split; [reflexivity|].
      rewrite !Dr_nil_l, app_length. cbn [length]. lia.
  - replace (S (S (length s))) with (S (length (s ++ [y])))
      by (rewrite app_length; cbn [length]; lia).
    apply IH.
Qed.

Lemma row0_ok exp : full_row_ok [] exp (row0 (length exp)).
Proof.
  unfold row0. cbn [seq map full_row_ok]. split.
  - split; cbn [fst snd]; [rewrite Dr_nil_l; reflexivity|left; split; reflexivity].
  - apply (row0_tail_ok exp []).
Qed.

(** ** Looking cells up *)

Lemma row_ok_nth a : forall rest s cs j,
  row_ok a s rest cs -> j < length rest ->
  exists c, nth_error cs j = Some c /\ cell_ok a (s ++ firstn (S j) rest) c.
Proof.
  induction rest as [|y rest IH]; intros s cs j Hok Hj; cbn [length] in Hj; [lia|].
  destruct cs as [|c cs]; [contradiction|]. cbn [row_ok] in Hok. destruct Hok as [Hc Hok].
  destruct j as [|j].
  - exists c. split; [reflexivity|]. cbn [firstn]. exact Hc.
  - destruct (IH (s ++ [y]) cs j Hok) as [c' [Hn Hc']]; [lia|].
    exists c'. split; [exact Hn|].
    rewrite <- app_assoc in Hc'. exact Hc'.
Qed.

Lemma full_row_nth a exp r j :
  full_row_ok a exp r -> j <= length exp ->
  exists c, nth_error r j = Some c /\ cell_ok a (firstn j exp) c.
Proof.
  intros Hok Hj. destruct r as [|c0 cs]; [contradiction|]. destruct Hok as [H0 Hok].
  destruct j as [|j].
  - exists c0. split; [reflexivity|exact H0].
  - destruct (row_ok_nth a exp [] cs j Hok) as [c [Hn Hc]]; [lia|].
    exists c. split; [exact Hn|exact Hc].
Qed.

Lemma mat_nth exp : forall ract a mat i,
  mat_ok a ract exp mat -> i <= length ract ->
  exists r, nth_error mat i = Some r /\ full_row_ok (a ++ firstn i ract) exp r.
Proof.
  induction ract as [|x ract IH]; intros a mat i Hok Hi;
    (destruct mat as [|r rows]; [contradiction|]); destruct Hok as [Hr Hrows].
  - cbn [length] in Hi. assert (i = 0) by lia. subst i.
    exists r. split; [reflexivity|]. cbn [firstn]. rewrite app_nil_r. exact Hr.
  - destruct i as [|i].
    + exists r. split; [reflexivity|]. cbn [firstn]. rewrite app_nil_r. exact Hr.
    + destruct rows as [|r1 rows]; [contradiction|].
      cbn [length] in Hi.
      destruct (IH (a ++ [x]) (r1 :: rows) i Hrows) as [r' [Hn Hr']]; [lia|].
      exists r'. split; [exact Hn|].
      rewrite <- app_assoc in Hr'. exact Hr'.
Qed.

Definition lookup_ok (act exp : list N) (mat : list (list cell)) : Prop :=
  forall i j, i <= length act -> j <= length exp ->
    exists c, lookup mat i j = Some c /\ cell_ok (firstn i act) (firstn j exp) c.

Lemma mat_ok_lookup act exp mat : mat_ok [] act exp mat -> lookup_ok act exp mat.
Proof.
  intros Hok i j Hi Hj.
  destruct (mat_nth exp act [] mat i Hok Hi) as [r [Hn Hr]]. cbn [app] in Hr.
  destruct (full_row_nth _ _ _ j Hr Hj) as [c [Hc Hcok]].
  exists c. unfold lookup. rewrite Hn. split; assumption.
Qed.

(** ** Scripts built from the back *)

Lemma script_ok_app : forall o1 a1 b1 o2 a2 b2,
  script_ok o1 a1 b1 = true -> script_ok o2 a2 b2 = true ->
  script_ok (o1 ++ o2) (a1 ++ a2) (b1 ++ b2) = true.
Proof.
  induction o1 as [|o o1 IH]; intros a1 b1 o2 a2 b2 H1 H2.
  - destruct a1, b1; try discriminate. exact H2.
  - cbn [app script_ok] in *. destruct o.
    + destruct a1 as [|x a1], b1 as [|e b1]; try discriminate.
      cbn [app]. apply andb_prop in H1 as [E H1]. rewrite E. cbn [andb]. apply IH; assumption.
    + destruct b1 as [|e b1]; try discriminate. cbn [app]. apply IH; assumption.
    + destruct a1 as [|x a1]; try discriminate. cbn [app]. apply IH; assumption.
    + destruct a1 as [|x a1], b1 as [|e b1]; try discriminate. cbn [app]. apply IH; assumption.
Qed.

Lemma cost_app o1 o2 : cost (o1 ++ o2) = cost o1 + cost o2.
Proof.
  induction o1 as [|o o1 IH]; [reflexivity|].
  cbn [app]. unfold cost in *. cbn [fold_right]. rewrite IH. lia.
Qed.

Lemma firstn_S_snoc {A} : forall (l : list A) i, i < length l ->
  exists y, firstn (S i) l = firstn i l ++ [y].
Proof.
  induction l as [|z l IH]; intros i Hi; cbn [length] in Hi; [lia|].
  destruct i as [|i].
  - exists z. reflexivity.
  - destruct (IH i) as [y Hy]; [lia|]. exists y.
    change (firstn (S (S i)) (z :: l)) with (z :: firstn (S i) l). rewrite Hy. reflexivity.
Qed.

Lemma firstn_snoc_inv {A} (l : list A) i a' x :
  i <= length l -> firstn i l = a' ++ [x] -> exists i', i = S i' /\ firstn i' l = a'.
Proof.
  intros Hi H. destruct i as [|i].
  - cbn [firstn] in H. destruct a'; discriminate.
  - exists i. split; [reflexivity|].
    destruct (firstn_S_snoc l i) as [y Hy]; [lia|].
    rewrite Hy in H. apply app_inj_tail in H. apply H.
Qed.

Lemma firstn_nil_inv {A} (l : list A) i : i <= length l -> firstn i l = [] -> i = 0.
Proof.
  intros Hi H. apply (f_equal (@length A)) in H.
  rewrite firstn_length_le in H by exact Hi. exact H.
Qed.

(** ** The back-tracking loop *)

Lemma backtrack_ok act exp mat : lookup_ok act exp mat ->
  forall fuel i j, i <= length act -> j <= length exp -> i + j <= fuel ->
  exists ps, backtrack fuel mat i j = Some ps /\
             script_ok (rev ps) (firstn i act) (firstn j exp) = true /\
             cost (rev ps) = Dr (firstn i act) (firstn j exp).
Proof.
  intros Hmat.
  assert (Hzero : forall fuel, exists ps, backtrack fuel mat 0 0 = Some ps /\
             script_ok (rev ps) (firstn 0 act) (firstn 0 exp) = true /\
             cost (rev ps) = Dr (firstn 0 act) (firstn 0 exp)).
  { intros fuel. exists []. destruct fuel; (split; [reflexivity|]); split; reflexivity. }
  induction fuel as [|f IH]; intros i j Hi Hj Hf.
  - assert (i = 0) by lia. assert (j = 0) by lia. subst i j. apply Hzero.
  - destruct ((0 <? i) || (0 <? j)) eqn:Hpos.
    2:{ apply orb_false_elim in Hpos as [P1 P2]. apply Nat.ltb_ge in P1, P2.
        assert (i = 0) by lia. assert (j = 0) by lia. subst i j. apply Hzero. }
    cbn [backtrack]. rewrite Hpos.
    destruct (Hmat i j Hi Hj) as [[v o] [Hlk [Hv Hstep]]]. cbn [fst snd] in Hv, Hstep.
    rewrite Hlk.
    destruct Hstep as [[Ha Hb]|Hstep].
    { apply firstn_nil_inv in Ha; [|exact Hi]. apply firstn_nil_inv in Hb; [|exact Hj].
      subst i j. discriminate. }
    destruct o; cbn [step_ok] in Hstep.
    + (* Keep *)
      destruct Hstep as [a' [b' [x [Ea [Eb Ed]]]]].
      destruct (firstn_snoc_inv _ _ _ _ Hi Ea) as [i' [-> Ei]].
      destruct (firstn_snoc_inv _ _ _ _ Hj Eb) as [j' [-> Ej]].
      cbn [back_step].
      destruct (IH i' j') as [ps [Hps [Hok Hcost]]]; [lia|lia|lia|].
      rewrite Hps. exists (Keep :: ps). split; [reflexivity|]. cbn [rev].
      rewrite Ed, Ea, Eb, cost_app, Hcost, Ei, Ej. split; [|cbn; lia].
      apply script_ok_app; [rewrite <- Ei, <- Ej; exact Hok|].
      cbn [script_ok]. rewrite N.eqb_refl. reflexivity.
    + (* Insert *)
      destruct Hstep as [b' [y [Eb Ed]]].
      destruct (firstn_snoc_inv _ _ _ _ Hj Eb) as [j' [-> Ej]].
      cbn [back_step].
      destruct (IH i j') as [ps [Hps [Hok Hcost]]]; [lia|lia|lia|].
      rewrite Hps. exists (Insert :: ps). split; [reflexivity|]. cbn [rev].
      rewrite Ed, Eb, cost_app, Hcost, Ej. split; [|cbn; lia].
      rewrite <- (app_nil_r (firstn i act)).
      apply script_ok_app; [rewrite <- Ej; exact Hok|reflexivity].
    + (* Delete *)
      destruct Hstep as [a' [x [Ea Ed]]].
      destruct (firstn_snoc_inv _ _ _ _ Hi Ea) as [i' [-> Ei]].
      cbn [back_step].
      destruct (IH i' j) as [ps [Hps [Hok Hcost]]]; [lia|lia|lia|].
      rewrite Hps. exists (Delete :: ps). split; [reflexivity|]. cbn [rev].
      rewrite Ed, Ea, cost_app, Hcost, Ei. split; [|cbn; lia].
      rewrite <- (app_nil_r (firstn j exp)).
      apply script_ok_app; [rewrite <- Ei; exact Hok|reflexivity].
    + (* Replace *)
      destruct Hstep as [a' [b' [x [y [Ea [Eb Ed]]]]]].
      destruct (firstn_snoc_inv _ _ _ _ Hi Ea) as [i' [-> Ei]].
      destruct (firstn_snoc_inv _ _ _ _ Hj Eb) as [j' [-> Ej]].
      cbn [back_step].
      destruct (IH i' j') as [ps [Hps [Hok Hcost]]]; [lia|lia|lia|].
      rewrite Hps. exists (Replace :: ps). split; [reflexivity|]. cbn [rev].
      rewrite Ed, Ea, Eb, cost_app, Hcost, Ei, Ej. split; [|cbn; lia].
      apply script_ok_app; [rewrite <- Ei, <- Ej; exact Hok|reflexivity].
Qed.

(** ** The matrix part is correct w.r.t. [Dr], for ALL inputs (also empty ones) *)

Lemma lev_matrix_spec act exp :
  exists ops, lev_matrix act exp = Some (Dr act exp, ops) /\
              script_ok ops act exp = true /\ cost ops = Dr act exp.
Proof.
  unfold lev_matrix.
  destruct (fill_rows_ok exp act [] (row0 (length exp)) 1 (row0_ok exp) eq_refl)
    as [rows [Hrows Hrok]].
  rewrite Hrows.
  assert (Hmat : lookup_ok act exp (row0 (length exp) :: rows)).
  { apply mat_ok_lookup. split; [apply row0_ok|exact Hrok]. }
  destruct (backtrack_ok act exp _ Hmat (length act + length exp + 1)
              (length act) (length exp)) as [ps [Hps [Hok Hcost]]]; [lia|lia|lia|].
  rewrite Hps.
  destruct (Hmat (length act) (length exp)) as [[v o] [Hlk [Hv _]]]; [lia|lia|].
  rewrite Hlk. rewrite !firstn_all in *. cbn [fst] in Hv. subst v.
  exists (rev ps). repeat split; assumption.
Qed.

(** Hence the distance is invariant under reversing both arguments: the model itself
    produces a valid script for [(act, exp)] whose cost is the distance of the reversals. *)
Lemma D_le_Dr a b : D a b <= Dr a b.
Proof.
  destruct (lev_matrix_spec a b) as [ops [_ [Hok Hcost]]].
  rewrite <- Hcost. apply D_minimal. exact Hok.
Qed.

Theorem Dr_eq_D a b : Dr a b = D a b.
Proof.
  apply Nat.le_antisymm; [|apply D_le_Dr].
  pose proof (D_le_Dr (rev a) (rev b)) as H. unfold Dr in H.
  rewrite !rev_involutive in H. exact H.
Qed.

(** ** The early returns *)

Lemma script_ok_inserts exp : script_ok (repeat Insert (length exp)) [] exp = true.
Proof. induction exp as [|e exp IH]; [reflexivity|exact IH]. Qed.

Lemma script_ok_deletes act : script_ok (repeat Delete (length act)) act [] = true.
Proof. induction act as [|a act IH]; [reflexivity|exact IH]. Qed.

Lemma cost_repeat o k : cost (repeat o k) = k * op_cost o.
Proof.
  induction k as [|k IH]; [reflexivity|].
  cbn [repeat]. unfold cost in *. cbn [fold_right]. rewrite IH. lia.
Qed.

(** ** Main results on [lev_opt] *)

Theorem lev_opt_spec act exp :
  exists ops, lev_opt act exp = Some (D act exp, ops) /\
              script_ok ops act exp = true /\ cost ops = D act exp.
Proof.
  assert (Hm : exists ops, lev_matrix act exp = Some (D act exp, ops) /\
              script_ok ops act exp = true /\ cost ops = D act exp).
  { rewrite <- Dr_eq_D. apply lev_matrix_spec. }
  destruct act as [|a act], exp as [|e exp]; cbn [lev_opt]; [ | | | exact Hm].
  - rewrite D_nil_l. exists []. repeat split.
  - rewrite D_nil_l. eexists. split; [reflexivity|]. split.
    + apply script_ok_inserts.
    + rewrite cost_repeat. cbn [op_cost]. lia.
  - rewrite D_nil_r. eexists. split; [reflexivity|]. split.
    + apply script_ok_deletes.
    + rewrite cost_repeat. cbn [op_cost]. lia.
Qed.

Theorem lev_opt_total act exp : lev_opt act exp = None -> False.
Proof.
  intros H. destruct (lev_opt_spec act exp) as [ops [E _]]. rewrite E in H. discriminate.
Qed.

(** Total wrapper: the [None] branch is unreachable (it extracts to [assert false]). *)
Definition lev (act exp : list N) : nat * list op :=
  match lev_opt act exp as o return ((o = None -> False) -> nat * list op) with
  | Some r => fun _ => r
  | None => fun H => False_rect _ (H eq_refl)
  end (lev_opt_total act exp).

Lemma lev_lev_opt act exp : lev_opt act exp = Some (lev act exp).
Proof.
  unfold lev. generalize (lev_opt_total act exp).
  destruct (lev_opt act exp) as [r|]; intros H; [reflexivity|destruct (H eq_refl)].
Qed.

Theorem lev_spec act exp :
  fst (lev act exp) = D act exp /\
  script_ok (snd (lev act exp)) act exp = true /\
  cost (snd (lev act exp)) = D act exp.
Proof.
  destruct (lev_opt_spec act exp) as [ops [E [Hok Hc]]].
  rewrite lev_lev_opt in E. injection E as E. rewrite E. cbn [fst snd]. auto.
Qed.

Theorem lev_passes_check : forall act exp,
  let '(d, ops) := lev act exp in lev_check act exp d ops = true.
Proof.
  intros act exp. destruct (lev_spec act exp) as [Hd [Hok Hc]].
  destruct (lev act exp) as [d ops]. cbn [fst snd] in *.
  unfold lev_check. rewrite Hok, Hc, dist_spec, Hd. cbn [andb].
  rewrite Nat.eqb_refl. reflexivity.
Qed.

Corollary lev_correct : forall act exp d ops, lev act exp = (d, ops) ->
  apply_ops ops [] act exp = Some exp /\
  cost ops = d /\
  (forall ops', script_ok ops' act exp = true -> d <= cost ops').
Proof.
  intros act exp d ops E. apply lev_check_sound.
  pose proof (lev_passes_check act exp) as H. rewrite E in H. exact H.
Qed.

(** The same two statements for the [option]-valued function (handy for extraction). *)
Theorem lev_opt_passes_check act exp :
  exists d ops, lev_opt act exp = Some (d, ops) /\ lev_check act exp d ops = true.
Proof.
  pose proof (lev_passes_check act exp) as H. pose proof (lev_lev_opt act exp) as E.
  destruct (lev act exp) as [d ops]. exists d, ops. split; assumption.
Qed.

(** ** Comparison with results of the real Rust function *)

Example lev_ex1 : lev [5;5;5;6]%N [5;6]%N = (2, [Delete;Delete;Keep;Keep]).
Proof. vm_compute. reflexivity. Qed.

Example lev_ex2 : lev [5]%N [5;5;6;5]%N = (3, [Insert;Insert;Insert;Keep]).
Proof. vm_compute. reflexivity. Qed.

Example lev_ex3 : lev [2;2;4;0;4]%N [2;2;4;2;0;4;2]%N
                  = (2, [Keep;Keep;Keep;Insert;Keep;Keep;Insert]).
Proof. vm_compute. reflexivity. Qed.

Example lev_ex4 : lev [1;0;0;0;1;2]%N [1;2;2;0]%N
                  = (4, [Keep;Replace;Replace;Keep;Delete;Delete]).
Proof. vm_compute. reflexivity. Qed.

Example lev_ex_early1 : lev [] [] = (0, []).
Proof. vm_compute. reflexivity. Qed.

Example lev_ex_early2 : lev [] [7;8]%N = (2, [Insert;Insert]).
Proof. vm_compute. reflexivity. Qed.

Example lev_ex_early3 : lev [7;8;9]%N [] = (3, [Delete;Delete;Delete]).
Proof. vm_compute. reflexivity. Qed.

Example lev_opt_ex4 : lev_opt [1;0;0;0;1;2]%N [1;2;2;0]%N
                      = Some (4, [Keep;Replace;Replace;Keep;Delete;Delete]).
Proof. vm_compute. reflexivity. Qed.

(** The matrix part alone also handles empty inputs (the early returns are an optimisation;
    note the cell (0,0) holding [Insert] is never followed). *)
Example lev_matrix_ex_empty : lev_matrix [] [7;8]%N = Some (2, [Insert;Insert]).
Proof. vm_compute. reflexivity. Qed.

(** The hypothesis of [lev_correct] is satisfiable on a non-trivial instance, and the
    conclusion's first component computes. *)
Example lev_correct_hyp_sat :
  lev [1;0;0;0;1;2]%N [1;2;2;0]%N = (4, [Keep;Replace;Replace;Keep;Delete;Delete]) /\
  apply_ops [Keep;Replace;Replace;Keep;Delete;Delete] [] [1;0;0;0;1;2]%N [1;2;2;0]%N
    = Some [1;2;2;0]%N.
Proof. split; vm_compute; reflexivity. Qed.

Print Assumptions lev_passes_check.
Print Assumptions lev_correct.
Print Assumptions lev_opt_total.
Print Assumptions lev_opt_passes_check.
Print Assumptions Dr_eq_D.
