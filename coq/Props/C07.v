(** Property C07 — Lookahead automata encode exactly the lookahead sets.
    Pinned statements only (generated with tools/pin.py); proofs in Analysis/LaTrie.v and
    Analysis/LaMinimize.v: faithful models of LookaheadDFA::from_k_tuples / unite (after the
    "fix:" commit that makes unite keep the larger k), CompiledDFA::from_lookahead_dfa,
    AdjacencyList::minimize (iteration order as an oracle), and the checker [la_dfa_check] that is
    applied to the automata parol really generates.  [accepts d u p] is the strict deterministic
    walk of Runtime/DfaEval.v.

    minimize_total (the minimisation model never fails on a well-formed trie) is NOT proved; the
    theorems about [minimize]/[compile_min] are partial-correctness statements ("if it returns an
    automaton, then ..."). *)
From Coq Require Import List NArith ZArith.
From Parol Require Import Runtime.DfaEval Analysis.LaTrie Analysis.LaMinimize.
Import ListNotations.

Theorem C07_la_dfa_check_sound :
  forall (d : dfa) (fam : family) (alphabet : list N),
  la_dfa_check d fam alphabet = true ->
  forall (u : list N) (p : Z), accepts d u p <-> In u (strings_of fam p).
Proof. exact la_dfa_check_sound. Qed.

Theorem C07_la_dfa_check_shape :
  forall (d : dfa) (fam : family) (alphabet : list N),
  la_dfa_check d fam alphabet = true ->
  sorted (transitions d) /\
  det (transitions d) /\
  wfd d = true /\
  (forall t : trans, In t (transitions d) -> t_tok t = 0%N \/ In (t_tok t) alphabet).
Proof. exact la_dfa_check_shape. Qed.

Theorem C07_la_dfa_check_eval :
  forall (d : dfa) (fam : family) (alphabet buf : list N) (p : Z),
  la_dfa_check d fam alphabet = true ->
  eval d buf = Predict p ->
  exists n : nat, n <= depth d /\ In (firstn n buf) (strings_of fam p).
Proof. exact la_dfa_check_eval. Qed.

Theorem C07_la_depth_check_spec :
  forall (d : dfa) (fam : family),
  la_depth_check d fam = true ->
  (forall (p : Z) (u : list N), In u (strings_of fam p) -> length u <= depth d) /\
  fam_max_len fam = depth d.
Proof. exact la_depth_check_spec. Qed.

Theorem C07_trie_exact :
  forall fam : family,
  fam_ok fam ->
  exists d : dfa,
  compile fam = Ok d /\
  (forall (u : list N) (p : Z), accepts d u p <-> In u (strings_of fam p)).
Proof. exact trie_exact. Qed.

Theorem C07_compile_sorted :
  forall (fam : family) (d : dfa), fam_ok fam -> compile fam = Ok d -> sorted (transitions d).
Proof. exact compile_sorted. Qed.

Theorem C07_compile_wfd :
  forall (fam : family) (d : dfa), fam_ok fam -> compile fam = Ok d -> wfd d = true.
Proof. exact compile_wfd. Qed.

Theorem C07_compile_depth :
  forall (fam : family) (d : dfa),
  fam_ok fam -> compile fam = Ok d -> depth d = fam_max_len fam.
Proof. exact compile_depth. Qed.

Theorem C07_minimize_preserves_accepts :
  forall (o : oracle) (d d' : dfa),
  wf_trie d ->
  minimize o d = Ok d' -> forall (u : list N) (p : Z), accepts d' u p <-> accepts d u p.
Proof. exact minimize_preserves_accepts. Qed.

Theorem C07_minimize_sorted :
  forall (o : oracle) (d d' : dfa), minimize o d = Ok d' -> sorted (transitions d').
Proof. exact minimize_sorted. Qed.

Theorem C07_minimize_depth :
  forall (o : oracle) (d d' : dfa), wf_trie d -> minimize o d = Ok d' -> depth d' = depth d.
Proof. exact minimize_depth. Qed.

Theorem C07_compile_min_exact :
  forall (o : oracle) (fam : family) (d' : dfa),
  fam_ok fam ->
  compile_min o fam = Ok d' ->
  (forall (u : list N) (p : Z), accepts d' u p <-> In u (strings_of fam p)) /\
  sorted (transitions d') /\ wfd d' = true /\ depth d' = fam_max_len fam.
Proof. exact compile_min_exact. Qed.

Theorem C07_unite_overwrites_refuted :
  exists (fam : family) (d : dfa) (u : list N) (p : Z),
  fam_disjointb fam = true /\
  compile fam = Ok d /\ In u (strings_of fam p) /\ acceptsb d u p = false.
Proof. exact unite_overwrites_refuted. Qed.

Theorem C07_compile_depth_refuted :
  exists (fam : family) (d : dfa) (buf : list N) (p : Z),
  fam_okb fam = true /\
  compile_old fam = Ok d /\
  depth d < fam_max_len fam /\
  In buf (strings_of fam p) /\
  eval d buf = PredictionError /\ eval_old d buf = PredictionError.
Proof. exact compile_depth_refuted. Qed.

Theorem C07_minimize_needs_leaves_refuted :
  exists (o : oracle) (d d' : dfa) (u : list N) (p : Z),
  minimize o d = Ok d' /\ acceptsb d u p = false /\ acceptsb d' u p = true.
Proof. exact minimize_needs_leaves_refuted. Qed.

