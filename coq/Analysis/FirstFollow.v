(** * Reference computation of FIRST_k / FOLLOW_k and of the strong-LL(k) decision (C05, C06).

    Executable Kleene iteration from the empty sets, on sorted duplicate-free lists of strings,
    proved equal to the derivation-based definitions of [Analysis/KSeq.v]:

    - [first_ref fuel k g]       per non-terminal FIRST_k           ([first_ref_correct])
    - [first_of_form k tbl α]    FIRST_k of a sentential form       ([first_of_form_correct])
    - [follow_ref fuel k g ft]   per non-terminal FOLLOW_k          ([follow_ref_correct])
    - [sll_check k g ft wt a]    strong-LL(k) test of one non-terminal ([sll_check_correct])
    - [decide_ref fuel K g]      minimal k <= K per non-terminal    ([decide_ref_correct])

    None of the correctness theorems needs the grammar to be reduced (reachable / productive /
    free of left recursion): the iteration starts from the empty sets, so it computes the least
    fixed point, and FOLLOW_k as defined in KSeq only asks the *right* context to be derivable.

    Two places where the Rust code deviates from the definitions, both outside the grammars the
    properties quantify over (noted here so that nobody is surprised by a harness mismatch):
    - [KTuples::k_concat] keeps the k-complete strings of its left operand even if the right
      operand is the empty set; here a product with the empty set is empty.  Visible only for
      unproductive tails ([S -> a B; B -> B]: Rust FIRST_1(S) = {a}, definition ∅, see [g5_first_1])
      and for unreachable non-terminals (FOLLOW_k = ∅).
    - for k = 0 follow.rs seeds FOLLOW_0(start) with the one-symbol string [$]; the definition
      gives {ε} (see [g1_k0]).  k = 0 is never requested by [decidable].

    Fuel: every function that iterates takes [fuel] = maximal number of rounds and returns [None]
    when it is exhausted.  A round that is not the last one adds at least one string to some
    set, so [1 + sum over non-terminals of |FIRST_k|] (resp. FOLLOW_k) rounds always suffice; in
    practice the number of rounds is about (number of non-terminals) * (k + 1).  *)
From Coq Require Import List NArith Bool Lia Arith Sorting.Mergesort Orders Sorted Permutation
  RelationClasses.
From Parol Require Import Grammar.Cfg Analysis.KSeq.
Import ListNotations.

Definition str := list N.

(** ** Lexicographic order on strings, sorted duplicate-free lists *)

Fixpoint str_cmp (u v : str) : comparison :=
  match u, v with
  | [], [] => Eq
  | [], _ :: _ => Lt
  | _ :: _, [] => Gt
  | x :: u', y :: v' => match N.compare x y with Eq => str_cmp u' v' | c => c end
  end.

Lemma str_cmp_eq u : forall v, str_cmp u v = Eq -> u = v.
Proof.
  induction u as [|x u IH]; intros [|y v] H; simpl in H; try discriminate; [reflexivity|].
  destruct (N.compare_spec x y) as [E|E|E]; try discriminate. subst. f_equal. apply IH, H.
Qed.

Lemma str_cmp_refl u : str_cmp u u = Eq.
Proof. induction u as [|x u IH]; simpl; [reflexivity|]. rewrite N.compare_refl. exact IH. Qed.

Lemma str_cmp_antisym u : forall v, str_cmp v u = CompOpp (str_cmp u v).
Proof.
  induction u as [|x u IH]; intros [|y v]; simpl; try reflexivity.
  rewrite (N.compare_antisym x y). destruct (N.compare x y); simpl; auto.
Qed.

Definition str_eqb (u v : str) : bool := match str_cmp u v with Eq => true | _ => false end.
Definition str_leb (u v : str) : bool := match str_cmp u v with Gt => false | _ => true end.

Lemma str_eqb_eq u v : str_eqb u v = true <-> u = v.
Proof.
  unfold str_eqb. split.
  - destruct (str_cmp u v) eqn:E; try discriminate. intros _. apply str_cmp_eq, E.
  - intros ->. rewrite str_cmp_refl. reflexivity.
Qed.

Lemma str_leb_total u v : str_leb u v = true \/ str_leb v u = true.
Proof.
  unfold str_leb. rewrite (str_cmp_antisym u v). destruct (str_cmp u v); simpl; auto.
Qed.

Lemma str_leb_trans u : forall v w, str_leb u v = true -> str_leb v w = true -> str_leb u w = true.
Proof.
  unfold str_leb. induction u as [|x u IH]; intros [|y v] [|z w] H1 H2; simpl in *;
    try reflexivity; try discriminate.
  destruct (N.compare_spec x y) as [E1|E1|E1]; try discriminate;
  destruct (N.compare_spec y z) as [E2|E2|E2]; try discriminate;
  destruct (N.compare_spec x z) as [E3|E3|E3]; subst; try lia; try reflexivity.
  exact (IH v w H1 H2).
Qed.

Module StrOrder <: TotalLeBool.
  Definition t := str.
  Definition leb := str_leb.
  Theorem leb_total : forall x y, leb x y = true \/ leb y x = true.
  Proof. exact str_leb_total. Qed.
End StrOrder.
Module StrSort := Sort StrOrder.

(** Remove adjacent duplicates. *)
Fixpoint dedup (l : list str) : list str :=
  match l with
  | [] => []
  | x :: l' => match l' with
               | [] => [x]
               | y :: _ => if str_eqb x y then dedup l' else x :: dedup l'
               end
  end.

Lemma in_dedup u l : In u (dedup l) <-> In u l.
Proof.
  induction l as [|x l IH]; [reflexivity|]. destruct l as [|y l'].
  - reflexivity.
  - change (dedup (x :: y :: l')) with (if str_eqb x y then dedup (y :: l') else x :: dedup (y :: l')).
    destruct (str_eqb x y) eqn:E.
    + apply str_eqb_eq in E. subst y. rewrite IH. simpl. tauto.
    + simpl In at 1. rewrite IH. simpl. tauto.
Qed.

Definition le_str (x y : str) : Prop := is_true (str_leb x y).

Lemma dedup_sorted l : StronglySorted le_str l -> StronglySorted le_str (dedup l).
Proof.
  induction l as [|x l IH]; intros H; [constructor|].
  apply StronglySorted_inv in H as [Hl Hx]. specialize (IH Hl). destruct l as [|y l'].
  - repeat constructor.
  - change (dedup (x :: y :: l')) with (if str_eqb x y then dedup (y :: l') else x :: dedup (y :: l')).
    destruct (str_eqb x y); [exact IH|]. constructor; [exact IH|].
    rewrite Forall_forall in *. intros z Hz. apply Hx. apply in_dedup. exact Hz.
Qed.

(** Canonical form of a set: sorted, duplicate-free. *)
Definition mk_set (l : list str) : list str := dedup (StrSort.sort l).

Lemma in_mk_set u l : In u (mk_set l) <-> In u l.
Proof.
  unfold mk_set. rewrite in_dedup. split; apply Permutation_in.
  - apply Permutation_sym, StrSort.Permuted_sort.
  - apply StrSort.Permuted_sort.
Qed.

Lemma mk_set_sorted l : StronglySorted le_str (mk_set l).
Proof.
  unfold mk_set. apply dedup_sorted. apply StrSort.StronglySorted_sort.
  intros x y z Hxy Hyz. exact (str_leb_trans x y z Hxy Hyz).
Qed.

(** Disjointness of two sorted lists by a merge walk. *)
Fixpoint disj (a : list str) : list str -> bool :=
  fix aux (b : list str) : bool :=
    match a, b with
    | [], _ => true
    | _, [] => true
    | x :: a', y :: b' =>
        match str_cmp x y with
        | Eq => false
        | Lt => disj a' b
        | Gt => aux b'
        end
    end.

Lemma disj_spec a : forall b, StronglySorted le_str a -> StronglySorted le_str b ->
  (disj a b = true <-> forall u, In u a -> In u b -> False).
Proof.
  induction a as [|x a IHa]; intros b Ha Hb.
  - destruct b; simpl; split; auto.
  - induction b as [|y b IHb].
    + simpl. split; auto.
    + apply StronglySorted_inv in Ha as [Ha' Hx]. apply StronglySorted_inv in Hb as [Hb' Hy].
      rewrite Forall_forall in Hx, Hy.
      change (disj (x :: a) (y :: b)) with
        (match str_cmp x y with Eq => false | Lt => disj a (y :: b) | Gt => disj (x :: a) b end).
      destruct (str_cmp x y) eqn:E.
      * apply str_cmp_eq in E. subst y. split; [discriminate|].
        intros H. exfalso. apply (H x); left; reflexivity.
      * rewrite (IHa (y :: b) Ha' (SSorted_cons y Hb' (proj2 (Forall_forall _ _) Hy))).
        split; intros H u Hu1 Hu2.
        -- destruct Hu1 as [<-|Hu1]; [|exact (H u Hu1 Hu2)].
           destruct Hu2 as [<-|Hu2].
           ++ rewrite str_cmp_refl in E. discriminate.
           ++ specialize (Hy x Hu2). unfold le_str, is_true, str_leb in Hy.
              rewrite (str_cmp_antisym x y), E in Hy. discriminate.
        -- apply (H u); [right; exact Hu1|exact Hu2].
      * rewrite (IHb Hb').
        split; intros H u Hu1 Hu2.
        -- destruct Hu2 as [<-|Hu2]; [|exact (H u Hu1 Hu2)].
           destruct Hu1 as [<-|Hu1].
           ++ rewrite str_cmp_refl in E. discriminate.
           ++ specialize (Hx y Hu1). unfold le_str, is_true, str_leb in Hx.
              rewrite E in Hx. discriminate.
        -- apply (H u); [exact Hu1|right; exact Hu2].
Qed.

Definition disjointb (a b : list str) : bool := disj (mk_set a) (mk_set b).

Lemma disjointb_spec a b : disjointb a b = true <-> forall u, In u a -> In u b -> False.
Proof.
  unfold disjointb. rewrite disj_spec by apply mk_set_sorted.
  split; intros H u Hu1 Hu2; apply (H u); try apply in_mk_set; try assumption;
    apply in_mk_set in Hu1; apply in_mk_set in Hu2; assumption.
Qed.

(** ** Truncated products of string sets *)

Lemma firstn_app_short {A} k (u v : list A) :
  length u <= k -> firstn k (u ++ v) = u ++ firstn (k - length u) v.
Proof. intros H. rewrite firstn_app, firstn_all2 by exact H. reflexivity. Qed.

(** The distinct prefixes of length [j] of the strings of [B], for [j = 0..k], computed once per
    product ([B] sorted makes [map (firstn j) B] sorted, so [dedup] removes all duplicates). *)
Definition prefixes (k : nat) (B : list str) : list (list str) :=
  map (fun j => dedup (map (firstn j) B)) (seq 0 (S k)).

Definition pref_at (ps : list (list str)) (B : list str) (j : nat) : list str :=
  match nth_error ps j with
  | Some l => l
  | None => dedup (map (firstn j) B)
  end.

Lemma nth_error_map_seq {A} (f : nat -> A) : forall n s j l,
  nth_error (map f (seq s n)) j = Some l -> l = f (s + j).
Proof.
  induction n as [|n IH]; intros s j l H; simpl in H.
  - destruct j; discriminate.
  - destruct j as [|j]; simpl in H.
    + rewrite Nat.add_0_r. congruence.
    + apply IH in H. rewrite H. f_equal. lia.
Qed.

Lemma pref_at_eq k B j : pref_at (prefixes k B) B j = dedup (map (firstn j) B).
Proof.
  unfold pref_at, prefixes.
  destruct (nth_error (map (fun j => dedup (map (firstn j) B)) (seq 0 (S k))) j) as [l|] eqn:E;
    [|reflexivity].
  apply nth_error_map_seq in E. exact E.
Qed.

(** [{ (if c u || |u| >= k then u|k else (u ++ v)|k)  |  u ∈ A, v ∈ B }].  Strings of [A] that
    cannot be extended are kept as they are *provided [B] is not empty*; for the others only the
    distinct prefixes of the needed length of [B] are appended. *)
Definition kprod_with (c : str -> bool) (k : nat) (A B : list str) (ps : list (list str))
    : list str :=
  mk_set (flat_map (fun u =>
            if c u || (k <=? length u) then [firstn k u]
            else map (app u) (pref_at ps B (k - length u))) A).

Definition kprod (c : str -> bool) (k : nat) (A B : list str) : list str :=
  match B with
  | [] => []
  | _ :: _ => kprod_with c k A B (prefixes k B)
  end.

Lemma in_kprod c k A B w :
  In w (kprod c k A B) <->
  exists u v, In u A /\ In v B /\
    w = if c u || (k <=? length u) then firstn k u else firstn k (u ++ v).
Proof.
  destruct B as [|b B'].
  - simpl. split; [intros []|intros (u & v & _ & [] & _)].
  - unfold kprod, kprod_with. rewrite in_mk_set, in_flat_map. split.
    + intros (u & Hu & Hw). destruct (c u || (k <=? length u)) eqn:E.
      * destruct Hw as [<-|[]]. exists u, b. rewrite E. repeat split; auto. left. reflexivity.
      * rewrite pref_at_eq in Hw.
        apply in_map_iff in Hw as (x & <- & Hx). rewrite in_dedup in Hx.
        apply in_map_iff in Hx as (v & <- & Hv). exists u, v. rewrite E. repeat split; auto.
        apply orb_false_iff in E as [_ E]. apply Nat.leb_gt in E.
        symmetry. apply firstn_app_short. lia.
    + intros (u & v & Hu & Hv & ->). exists u. split; [exact Hu|].
      destruct (c u || (k <=? length u)) eqn:E; [left; reflexivity|].
      apply orb_false_iff in E as [_ E]. apply Nat.leb_gt in E.
      rewrite pref_at_eq.
      rewrite firstn_app_short by lia. apply in_map. apply in_dedup. apply in_map. exact Hv.
Qed.

(** List-level [kcat_sets] and [kconcat_sets]. *)
Definition kcat_l (k : nat) (A B : list str) : list str := kprod (fun _ => false) k A B.
Definition kconcat_l (k : nat) (A B : list str) : list str := kprod ends_eoi k A B.

Lemma in_kcat_l k A B w :
  In w (kcat_l k A B) <-> exists u v, In u A /\ In v B /\ w = kcat k u v.
Proof.
  unfold kcat_l. rewrite in_kprod. simpl.
  split; intros (u & v & Hu & Hv & ->); exists u, v; repeat split; auto; unfold kcat;
    destruct (Nat.leb_spec k (length u)) as [H|H]; try reflexivity;
    [symmetry|]; apply firstn_app_long; exact H.
Qed.

Lemma in_kconcat_l k A B w :
  In w (kconcat_l k A B) <-> exists u v, In u A /\ In v B /\ w = kconcat k u v.
Proof. unfold kconcat_l. rewrite in_kprod. reflexivity. Qed.

(** ** Tables indexed by non-terminals *)

Definition tbl := list (N * list str).

Definition lookup (t : tbl) (a : N) : list str :=
  match find (fun r => N.eqb (fst r) a) t with
  | Some r => snd r
  | None => []
  end.

Lemma lookup_map_in (f : N -> list str) keys a :
  In a keys -> lookup (map (fun b => (b, f b)) keys) a = f a.
Proof.
  unfold lookup. induction keys as [|b keys IH]; intros H; [destruct H|]. simpl.
  destruct (N.eqb_spec b a) as [->|Hn]; [reflexivity|].
  destruct H as [H|H]; [contradiction|]. apply IH, H.
Qed.

Lemma lookup_map_notin (f : N -> list str) keys a :
  ~ In a keys -> lookup (map (fun b => (b, f b)) keys) a = [].
Proof.
  unfold lookup. induction keys as [|b keys IH]; intros H; [reflexivity|]. simpl.
  destruct (N.eqb_spec b a) as [->|Hn]; [exfalso; apply H; left; reflexivity|].
  apply IH. intros H'. apply H. right. exact H'.
Qed.

(** Sorted duplicate-free list of the non-terminals of a grammar: the row keys of all tables. *)
Fixpoint ninsert (a : N) (l : list N) : list N :=
  match l with
  | [] => [a]
  | b :: l' => match N.compare a b with
               | Lt => a :: l
               | Eq => l
               | Gt => b :: ninsert a l'
               end
  end.

Lemma in_ninsert x a l : In x (ninsert a l) <-> x = a \/ In x l.
Proof.
  induction l as [|b l IH]; simpl; [intuition|].
  destruct (N.compare_spec a b) as [E|E|E]; simpl; [subst|..]; try rewrite IH; intuition.
Qed.

Definition nt_keys (g : cfg) : list N := fold_right ninsert [] (nts g).

Lemma in_nt_keys g a : In a (nt_keys g) <-> In a (nts g).
Proof.
  unfold nt_keys. induction (nts g) as [|b l IH]; simpl; [reflexivity|].
  rewrite in_ninsert, IH. intuition.
Qed.

Definition empty_tbl (keys : list N) : tbl := map (fun a => (a, [])) keys.

Lemma lookup_empty keys a : lookup (empty_tbl keys) a = [].
Proof.
  unfold empty_tbl. destruct (in_dec N.eq_dec a keys) as [H|H].
  - apply (lookup_map_in (fun _ => [])). exact H.
  - apply (lookup_map_notin (fun _ => [])). exact H.
Qed.

(** Structural equality of tables. *)
Fixpoint list_eqb {A} (eqb : A -> A -> bool) (l1 l2 : list A) : bool :=
  match l1, l2 with
  | [], [] => true
  | x :: l1', y :: l2' => eqb x y && list_eqb eqb l1' l2'
  | _, _ => false
  end.

Lemma list_eqb_eq {A} (eqb : A -> A -> bool) :
  (forall x y, eqb x y = true -> x = y) ->
  forall l1 l2, list_eqb eqb l1 l2 = true -> l1 = l2.
Proof.
  intros He. induction l1 as [|x l1 IH]; intros [|y l2] H; simpl in H; try discriminate;
    [reflexivity|].
  apply andb_prop in H as [H1 H2]. f_equal; [apply He, H1|apply IH, H2].
Qed.

Definition row_eqb (r s : N * list str) : bool :=
  N.eqb (fst r) (fst s) && list_eqb str_eqb (snd r) (snd s).
Definition tbl_eqb (t1 t2 : tbl) : bool := list_eqb row_eqb t1 t2.

Lemma tbl_eqb_eq t1 t2 : tbl_eqb t1 t2 = true -> t1 = t2.
Proof.
  apply list_eqb_eq. intros [a r] [b s] H. unfold row_eqb in H. simpl in H.
  apply andb_prop in H as [H1 H2]. apply N.eqb_eq in H1.
  apply list_eqb_eq in H2; [congruence|]. intros x y. apply str_eqb_eq.
Qed.

(** ** Fixed-point iteration with fuel *)

Fixpoint iter {A} (eqb : A -> A -> bool) (F : A -> A) (fuel : nat) (x : A) : option A :=
  match fuel with
  | 0 => None
  | S fuel' => let y := F x in if eqb y x then Some x else iter eqb F fuel' y
  end.

Lemma iter_inv {A} (eqb : A -> A -> bool) (F : A -> A) (P : A -> Prop) :
  (forall y, P y -> P (F y)) ->
  forall fuel x r, P x -> iter eqb F fuel x = Some r -> P r /\ eqb (F r) r = true.
Proof.
  intros HF. induction fuel as [|fuel IH]; intros x r Hx H; simpl in H; [discriminate|].
  destruct (eqb (F x) x) eqn:E.
  - inversion H; subst. auto.
  - apply (IH (F x)); auto.
Qed.

(** ** FIRST_k *)

Fixpoint first_of_form (k : nat) (t : tbl) (α : list sym) : list str :=
  match α with
  | [] => [[]]
  | T x :: α' => kcat_l k [[x]] (first_of_form k t α')
  | NT a :: α' => kcat_l k (lookup t a) (first_of_form k t α')
  end.

Definition first_step (k : nat) (g : cfg) (keys : list N) (t : tbl) : tbl :=
  map (fun a => (a, mk_set (flat_map (fun p => first_of_form k t (rhs p)) (prods_of g a)))) keys.

Definition first_ref (fuel k : nat) (g : cfg) : option tbl :=
  let keys := nt_keys g in
  iter tbl_eqb (first_step k g keys) fuel (empty_tbl keys).

(** FIRST_k of every production, in grammar order (the [productions] vector of first.rs). *)
Definition first_prods (k : nat) (g : cfg) (t : tbl) : list (list str) :=
  map (fun p => first_of_form k t (rhs p)) (prods g).

Section First.
  Variable k : nat.
  Variable g : cfg.

  Definition first_sound (t : tbl) : Prop :=
    forall a u, In u (lookup t a) -> First k g [NT a] u.

  Lemma first_of_form_sound t : first_sound t ->
    forall α u, In u (first_of_form k t α) -> First k g α u.
  Proof.
    intros Ht. induction α as [|[x|a] α IH]; intros u Hu; simpl in Hu.
    - destruct Hu as [<-|[]]. apply First_nil. reflexivity.
    - apply in_kcat_l in Hu as (x' & v & [<-|[]] & Hv & ->).
      apply First_cons. exists (firstn k [x]), v. repeat split.
      + apply First_T. reflexivity.
      + apply IH, Hv.
      + unfold kcat. symmetry. apply firstn_firstn_app.
    - apply in_kcat_l in Hu as (x' & v & Hx & Hv & ->).
      apply First_cons. exists x', v. repeat split; auto.
  Qed.

  Lemma lookup_first_step t a u :
    In u (lookup (first_step k g (nt_keys g) t) a) <->
    In a (nts g) /\ exists p, In p (prods g) /\ lhs p = a /\ In u (first_of_form k t (rhs p)).
  Proof.
    unfold first_step. destruct (in_dec N.eq_dec a (nt_keys g)) as [H|H].
    - rewrite (lookup_map_in _ _ _ H), in_mk_set, in_flat_map. apply in_nt_keys in H. split.
      + intros (p & Hp & Hu). apply in_prods_of in Hp as [Hp1 Hp2]. eauto 6.
      + intros (_ & p & Hp1 & Hp2 & Hu). exists p. split; [apply in_prods_of; auto|exact Hu].
    - rewrite (lookup_map_notin _ _ _ H). rewrite in_nt_keys in H.
      split; [intros []|intros [H' _]; contradiction].
  Qed.

  Lemma first_step_sound t : first_sound t -> first_sound (first_step k g (nt_keys g) t).
  Proof.
    intros Ht a u Hu. apply lookup_first_step in Hu as (_ & p & Hp & Hl & Hu).
    apply First_NT. exists p. repeat split; auto. apply (first_of_form_sound t Ht), Hu.
  Qed.

  Lemma first_empty_sound : first_sound (empty_tbl (nt_keys g)).
  Proof. intros a u Hu. rewrite lookup_empty in Hu. destruct Hu. Qed.

  Lemma first_stable_complete t : first_step k g (nt_keys g) t = t ->
    forall α w, derives g α w -> In (firstn k w) (first_of_form k t α).
  Proof.
    intros Hst. induction 1 as [|x α w _ IH|a p α u v Hin Hl _ IHr _ IHa]; simpl.
    - rewrite firstn_nil. left. reflexivity.
    - apply in_kcat_l. exists [x], (firstn k w). repeat split; [left; reflexivity|exact IH|].
      unfold kcat. symmetry. apply (firstn_app_firstn k [x] w).
    - apply in_kcat_l. exists (firstn k u), (firstn k v). repeat split; [|exact IHa|].
      + rewrite <- Hst. apply lookup_first_step. split.
        * rewrite <- Hl. apply lhs_in_nts, Hin.
        * exists p. auto.
      + symmetry. apply kcat_firstn.
  Qed.

  Lemma first_ref_fixpoint fuel t : first_ref fuel k g = Some t ->
    first_sound t /\ first_step k g (nt_keys g) t = t.
  Proof.
    intros H. unfold first_ref in H.
    apply (iter_inv tbl_eqb _ first_sound first_step_sound) in H as [H1 H2].
    - split; [exact H1|apply tbl_eqb_eq, H2].
    - apply first_empty_sound.
  Qed.
End First.

Theorem first_of_form_correct fuel k g t : first_ref fuel k g = Some t ->
  forall α u, In u (first_of_form k t α) <-> First k g α u.
Proof.
  intros H α u. apply first_ref_fixpoint in H as [Hs Hst]. split.
  - apply (first_of_form_sound k g t Hs).
  - intros (w & Hw & ->). apply (first_stable_complete k g t Hst α w Hw).
Qed.

Corollary first_prods_correct fuel k g t : first_ref fuel k g = Some t ->
  forall i p, nth_error (prods g) i = Some p ->
  exists s, nth_error (first_prods k g t) i = Some s /\ forall u, In u s <-> First k g (rhs p) u.
Proof.
  intros H i p Hp. exists (first_of_form k t (rhs p)). split.
  - unfold first_prods.
    exact (map_nth_error (fun p => first_of_form k t (rhs p)) i (prods g) Hp).
  - intros u. apply (first_of_form_correct fuel k g t H).
Qed.

(** Holds for every [a]; for [a] outside the grammar both sides are empty. *)
Theorem first_ref_correct_all fuel k g t : first_ref fuel k g = Some t ->
  forall a u, In u (lookup t a) <-> First k g [NT a] u.
Proof.
  intros H a u. pose proof (first_of_form_correct fuel k g t H) as Hf.
  apply first_ref_fixpoint in H as [Hs Hst]. split; [apply Hs|].
  intros Hu. apply Hf in Hu. cbn [first_of_form] in Hu.
  apply in_kcat_l in Hu as (x & v & Hx & [<-|[]] & ->).
  unfold kcat. rewrite app_nil_r, firstn_all2; [exact Hx|].
  eapply First_kstr_len, Hs, Hx.
Qed.

Theorem first_ref_correct fuel k g t : first_ref fuel k g = Some t ->
  forall a u, In a (nts g) -> (In u (lookup t a) <-> First k g [NT a] u).
Proof. intros H a u _. apply (first_ref_correct_all fuel k g t H). Qed.

(** ** FOLLOW_k *)

(** One equation per occurrence of a non-terminal in a right-hand side:
    (the non-terminal [b] at that position, the left-hand side [A], FIRST_k of what follows [b]). *)
Fixpoint occs (k : nat) (ft : tbl) (A : N) (r : list sym) : list (N * N * list str) :=
  match r with
  | [] => []
  | T _ :: r' => occs k ft A r'
  | NT b :: r' => (b, A, first_of_form k ft r') :: occs k ft A r'
  end.

Definition follow_eqs (k : nat) (g : cfg) (ft : tbl) : list (N * N * list str) :=
  flat_map (fun p => occs k ft (lhs p) (rhs p)) (prods g).

Definition follow_step (k : nat) (g : cfg) (keys : list N) (eqs : list (N * N * list str))
    (wt : tbl) : tbl :=
  map (fun b =>
         (b, mk_set ((if N.eqb b (start g) then [firstn k [eoi]] else []) ++
                     flat_map (fun e => let '(b', A, F) := e in
                                 if N.eqb b' b then kcat_l k F (lookup wt A) else []) eqs)))
      keys.

Definition follow_ref (fuel k : nat) (g : cfg) (ft : tbl) : option tbl :=
  let keys := nt_keys g in
  iter tbl_eqb (follow_step k g keys (follow_eqs k g ft)) fuel (empty_tbl keys).

Lemma in_occs k ft A r b A' F :
  In (b, A', F) (occs k ft A r) <->
  A' = A /\ exists α γ, r = α ++ NT b :: γ /\ F = first_of_form k ft γ.
Proof.
  induction r as [|[x|c] r IH]; simpl.
  - split; [intros []|intros (_ & α & γ & H & _); destruct α; discriminate].
  - rewrite IH. split; intros (HA & α & γ & Hr & HF); split; auto.
    + exists (T x :: α), γ. simpl. rewrite Hr. auto.
    + destruct α as [|s α]; simpl in Hr; [discriminate|]. inversion Hr; subst. eauto.
  - rewrite IH. split.
    + intros [H|(HA & α & γ & Hr & HF)].
      * inversion H; subst. split; auto. exists [], r. auto.
      * split; auto. exists (NT c :: α), γ. simpl. rewrite Hr. auto.
    + intros (HA & α & γ & Hr & HF). destruct α as [|s α]; simpl in Hr.
      * inversion Hr; subst. left. reflexivity.
      * inversion Hr; subst. right. split; auto. eauto.
Qed.

Lemma in_follow_eqs k g ft b A F :
  In (b, A, F) (follow_eqs k g ft) <->
  exists p α γ, In p (prods g) /\ lhs p = A /\ rhs p = α ++ NT b :: γ /\
                F = first_of_form k ft γ.
Proof.
  unfold follow_eqs. rewrite in_flat_map. split.
  - intros (p & Hp & H). apply in_occs in H as (HA & α & γ & Hr & HF). exists p, α, γ. auto.
  - intros (p & α & γ & Hp & HA & Hr & HF). exists p. split; [exact Hp|].
    apply in_occs. split; [auto|]. eauto.
Qed.

Section Follow.
  Variable k : nat.
  Variable g : cfg.
  Variable ft : tbl.
  Hypothesis Hft : forall α u, In u (first_of_form k ft α) <-> First k g α u.

  Lemma lookup_follow_step wt b u :
    In u (lookup (follow_step k g (nt_keys g) (follow_eqs k g ft) wt) b) <->
    In b (nts g) /\
    ((b = start g /\ u = firstn k [eoi]) \/
     exists p α γ x v, In p (prods g) /\ rhs p = α ++ NT b :: γ /\
       First k g γ x /\ In v (lookup wt (lhs p)) /\ u = kcat k x v).
  Proof.
    unfold follow_step. destruct (in_dec N.eq_dec b (nt_keys g)) as [H|H].
    - rewrite (lookup_map_in _ _ _ H), in_mk_set, in_app_iff, in_flat_map.
      apply in_nt_keys in H. split.
      + intros [Hu|([[b' A] F] & He & Hu)]; (split; [exact H|]).
        * left. destruct (N.eqb_spec b (start g)) as [E|E]; [|destruct Hu].
          destruct Hu as [<-|[]]. auto.
        * right. destruct (N.eqb_spec b' b) as [->|E]; [|destruct Hu].
          apply in_follow_eqs in He as (p & α & γ & Hp & HA & Hr & ->).
          apply in_kcat_l in Hu as (x & v & Hx & Hv & ->). subst A.
          exists p, α, γ, x, v. repeat split; auto. apply Hft, Hx.
      + intros (_ & [[-> ->]|(p & α & γ & x & v & Hp & Hr & Hx & Hv & ->)]).
        * left. rewrite N.eqb_refl. left. reflexivity.
        * right. exists (b, lhs p, first_of_form k ft γ). split.
          -- apply in_follow_eqs. exists p, α, γ. auto.
          -- rewrite N.eqb_refl. apply in_kcat_l. exists x, v. repeat split; auto.
             apply Hft, Hx.
    - rewrite (lookup_map_notin _ _ _ H). rewrite in_nt_keys in H.
      split; [intros []|intros [H' _]; contradiction].
  Qed.

  Definition follow_sound (wt : tbl) : Prop :=
    forall a u, In u (lookup wt a) -> Follow k g a u.

  Lemma follow_step_sound wt :
    follow_sound wt -> follow_sound (follow_step k g (nt_keys g) (follow_eqs k g ft) wt).
  Proof.
    intros Hw b u Hu.
    apply lookup_follow_step in Hu
      as (_ & [[-> ->]|(p & α & γ & x & v & Hp & Hr & Hx & Hv & ->)]).
    - apply Follow_start.
    - eapply Follow_prod; eauto.
  Qed.

  Lemma follow_empty_sound : follow_sound (empty_tbl (nt_keys g)).
  Proof. intros a u Hu. rewrite lookup_empty in Hu. destruct Hu. Qed.

  Lemma follow_stable_complete wt :
    follow_step k g (nt_keys g) (follow_eqs k g ft) wt = wt ->
    forall a u, Follow k g a u -> In u (lookup wt a).
  Proof.
    intros Hst. apply (Follow_least k g (fun a u => In u (lookup wt a))).
    - rewrite <- Hst. apply lookup_follow_step. split; [left; reflexivity|]. left. auto.
    - intros p α b γ x v Hp Hr Hx Hv. rewrite <- Hst. apply lookup_follow_step. split.
      + apply (rhs_in_nts g p b Hp). rewrite Hr. apply in_or_app. right. left. reflexivity.
      + right. exists p, α, γ, x, v. auto.
  Qed.

  Lemma follow_ref_fixpoint fuel wt : follow_ref fuel k g ft = Some wt ->
    follow_sound wt /\ follow_step k g (nt_keys g) (follow_eqs k g ft) wt = wt.
  Proof.
    intros H. unfold follow_ref in H.
    apply (iter_inv tbl_eqb _ follow_sound follow_step_sound) in H as [H1 H2].
    - split; [exact H1|apply tbl_eqb_eq, H2].
    - apply follow_empty_sound.
  Qed.
End Follow.

(** Holds for every [a]; no reachability or productivity assumption is needed. *)
Theorem follow_ref_correct_all fuel fuel' k g ft wt :
  first_ref fuel k g = Some ft -> follow_ref fuel' k g ft = Some wt ->
  forall a u, In u (lookup wt a) <-> Follow k g a u.
Proof.
  intros H1 H2 a u. pose proof (first_of_form_correct fuel k g ft H1) as Hft.
  apply (follow_ref_fixpoint k g ft Hft) in H2 as [Hs Hst]. split.
  - apply Hs.
  - apply (follow_stable_complete k g ft Hft wt Hst).
Qed.

Theorem follow_ref_correct fuel fuel' k g ft wt :
  first_ref fuel k g = Some ft -> follow_ref fuel' k g ft = Some wt ->
  forall a u, In a (nts g) -> (In u (lookup wt a) <-> Follow k g a u).
Proof. intros H1 H2 a u _. apply (follow_ref_correct_all fuel fuel' k g ft wt H1 H2). Qed.

(** ** Strong LL(k) test *)

(** Lookahead sets FIRST_k(rhs p) ·k FOLLOW_k(a) of the productions of [a], in grammar order. *)
Definition la_sets (k : nat) (g : cfg) (ft wt : tbl) (a : N) : list (list str) :=
  map (fun p => kconcat_l k (first_of_form k ft (rhs p)) (lookup wt a)) (prods_of g a).

Fixpoint pairwise_disjoint (l : list (list str)) : bool :=
  match l with
  | [] => true
  | x :: r => forallb (disjointb x) r && pairwise_disjoint r
  end.

Definition sll_check (k : nat) (g : cfg) (ft wt : tbl) (a : N) : bool :=
  pairwise_disjoint (la_sets k g ft wt a).

Lemma pairwise_disjoint_spec l :
  pairwise_disjoint l = true <->
  forall i j x y, i <> j -> nth_error l i = Some x -> nth_error l j = Some y ->
    forall w, In w x -> In w y -> False.
Proof.
  induction l as [|z l IH]; simpl.
  - split; [|reflexivity]. intros _ [|i] j x y _ H; discriminate.
  - rewrite andb_true_iff, forallb_forall, IH. split.
    + intros [H1 H2] [|i] [|j] x y Hij Hx Hy w Hwx Hwy; simpl in Hx, Hy.
      * congruence.
      * inversion Hx; subst. apply nth_error_In in Hy.
        apply (proj1 (disjointb_spec x y) (H1 y Hy) w Hwx Hwy).
      * inversion Hy; subst. apply nth_error_In in Hx.
        apply (proj1 (disjointb_spec y x) (H1 x Hx) w Hwy Hwx).
      * apply (H2 i j x y) with (w := w); auto.
    + intros H. split.
      * intros y Hy. apply disjointb_spec. intros w Hwz Hwy.
        apply In_nth_error in Hy as (j & Hj).
        apply (H 0 (S j) z y) with (w := w); auto.
      * intros i j x y Hij Hx Hy. apply (H (S i) (S j) x y); auto.
Qed.

Theorem sll_check_correct k g ft wt a :
  (forall α u, In u (first_of_form k ft α) <-> First k g α u) ->
  (forall u, In u (lookup wt a) <-> Follow k g a u) ->
  (sll_check k g ft wt a = true <-> SLL k g a).
Proof.
  intros Hft Hwt. unfold sll_check, la_sets, SLL. rewrite pairwise_disjoint_spec.
  assert (HLA : forall p w,
             In w (kconcat_l k (first_of_form k ft (rhs p)) (lookup wt a)) <-> LA k g a p w).
  { intros p w. rewrite in_kconcat_l. unfold LA, kconcat_sets.
    split; intros (u & v & Hu & Hv & ->); exists u, v; repeat split; auto;
      try (apply Hft, Hu); apply Hwt, Hv. }
  split.
  - intros H i j p q Hij Hp Hq w Hwp Hwq.
    apply (H i j _ _ Hij (map_nth_error _ i _ Hp) (map_nth_error _ j _ Hq) w);
      apply HLA; assumption.
  - intros H i j x y Hij Hx Hy w Hwx Hwy.
    rewrite nth_error_map in Hx, Hy.
    destruct (nth_error (prods_of g a) i) as [p|] eqn:Ep; [|discriminate].
    destruct (nth_error (prods_of g a) j) as [q|] eqn:Eq; [|discriminate].
    simpl in Hx, Hy. inversion Hx; subst. inversion Hy; subst.
    apply (H i j p q Hij Ep Eq w); apply HLA; assumption.
Qed.

(** The same with the tables produced by the reference computations. *)
Corollary sll_check_ref_correct fuel fuel' k g ft wt a :
  first_ref fuel k g = Some ft -> follow_ref fuel' k g ft = Some wt ->
  (sll_check k g ft wt a = true <-> SLL k g a).
Proof.
  intros H1 H2. apply sll_check_correct.
  - apply (first_of_form_correct fuel k g ft H1).
  - intros u. apply (follow_ref_correct_all fuel fuel' k g ft wt H1 H2).
Qed.

(** ** The LL(k) decision *)

(** What [decide_ref] reports for non-terminal [a], following [decidable] of k_decision.rs:
    no production: "not part of the grammar" ([None]); exactly one production: [Some 0];
    otherwise the least k in 1..K at which [a] is strong LL(k), [None] if there is none. *)
Definition decide_spec (K : nat) (g : cfg) (a : N) (r : option nat) : Prop :=
  match prods_of g a with
  | [] => r = None
  | [_] => r = Some 0
  | _ :: _ :: _ =>
      match r with
      | Some k => 1 <= k <= K /\ SLL k g a /\ forall j, 1 <= j < k -> ~ SLL j g a
      | None => forall j, 1 <= j <= K -> ~ SLL j g a
      end
  end.

Lemma decide_spec_functional K g a r r' : decide_spec K g a r -> decide_spec K g a r' -> r = r'.
Proof.
  unfold decide_spec. destruct (prods_of g a) as [|p [|q l]]; try congruence.
  destruct r as [k|], r' as [k'|]; intros H H'; try reflexivity.
  - destruct H as (Hk & Hs & Hm), H' as (Hk' & Hs' & Hm'). f_equal.
    destruct (Nat.lt_trichotomy k k') as [L|[L|L]]; [|exact L|].
    + exfalso. apply (Hm' k); [lia|exact Hs].
    + exfalso. apply (Hm k'); [lia|exact Hs'].
  - destruct H as (Hk & Hs & _). exfalso. apply (H' k); [lia|exact Hs].
  - destruct H' as (Hk & Hs & _). exfalso. apply (H k'); [lia|exact Hs].
Qed.

(** Non-terminals still undecided are tested at k, k+1, ... (n values); the tables for a value
    of k are computed only if some non-terminal still needs them. *)
Fixpoint decide_loop (fuel : nat) (g : cfg) (n k : nat) (pending : list N)
    : option (list (N * option nat)) :=
  match pending with
  | [] => Some []
  | _ :: _ =>
      match n with
      | 0 => Some (map (fun a => (a, None)) pending)
      | S n' =>
          match first_ref fuel k g with
          | None => None
          | Some ft =>
              match follow_ref fuel k g ft with
              | None => None
              | Some wt =>
                  let yes := filter (sll_check k g ft wt) pending in
                  let no := filter (fun a => negb (sll_check k g ft wt a)) pending in
                  match decide_loop fuel g n' (S k) no with
                  | None => None
                  | Some rest => Some (map (fun a => (a, Some k)) yes ++ rest)
                  end
              end
          end
      end
  end.

Definition trivial_rows (g : cfg) (keys : list N) : list (N * option nat) :=
  flat_map (fun a => match prods_of g a with
                     | [] => [(a, None)]
                     | [_] => [(a, Some 0)]
                     | _ :: _ :: _ => []
                     end) keys.

Definition needs_lookahead (g : cfg) (a : N) : bool :=
  match prods_of g a with _ :: _ :: _ => true | _ => false end.

Definition decide_ref (fuel K : nat) (g : cfg) : option (list (N * option nat)) :=
  let keys := nt_keys g in
  match decide_loop fuel g K 1 (filter (needs_lookahead g) keys) with
  | None => None
  | Some rows => Some (trivial_rows g keys ++ rows)
  end.

Lemma decide_loop_spec fuel g : forall n k pending rows,
  decide_loop fuel g n k pending = Some rows ->
  (forall a r, In (a, r) rows ->
     In a pending /\
     match r with
     | Some j => k <= j < k + n /\ SLL j g a /\ forall i, k <= i < j -> ~ SLL i g a
     | None => forall i, k <= i < k + n -> ~ SLL i g a
     end) /\
  (forall a, In a pending -> exists r, In (a, r) rows).
Proof.
  induction n as [|n IH]; intros k pending rows H.
  - destruct pending as [|a0 pending].
    + inversion H; subst. split; [intros a r []|intros a []].
    + remember (a0 :: pending) as pend eqn:Epend.
      assert (Hrows : rows = map (fun a => (a, @None nat)) pend)
        by (rewrite Epend in H |- *; simpl in H; simpl; congruence).
      clear H Epend a0 pending. subst rows. rename pend into pending. split.
      * intros a r Hin. apply in_map_iff in Hin as (b & E & Hb). inversion E; subst.
        split; [exact Hb|]. intros i Hi. lia.
      * intros a Ha. exists None. apply in_map_iff. exists a. auto.
  - destruct pending as [|a0 pending]; [inversion H; subst; split; [intros a r []|intros a []]|].
    remember (a0 :: pending) as pend eqn:Epend. simpl in H. rewrite Epend in H at 1.
    destruct (first_ref fuel k g) as [ft|] eqn:E1; [|discriminate].
    destruct (follow_ref fuel k g ft) as [wt|] eqn:E2; [|discriminate].
    destruct (decide_loop fuel g n (S k) (filter (fun a => negb (sll_check k g ft wt a)) pend))
      as [rest|] eqn:E3; [|discriminate].
    inversion H; subst rows; clear H.
    pose proof (fun a => sll_check_ref_correct fuel fuel k g ft wt a E1 E2) as Hc.
    apply IH in E3 as [R1 R2]. split.
    + intros a r Hin. apply in_app_or in Hin as [Hin|Hin].
      * apply in_map_iff in Hin as (b & E & Hb). inversion E; subst.
        apply filter_In in Hb as [Hb1 Hb2]. split; [exact Hb1|].
        split; [lia|]. split; [apply Hc, Hb2|]. intros i Hi. lia.
      * apply R1 in Hin as [Hp Hr]. apply filter_In in Hp as [Hp1 Hp2].
        apply negb_true_iff in Hp2.
        assert (Hk : ~ SLL k g a) by (intros Hs; apply Hc in Hs; congruence).
        split; [exact Hp1|]. destruct r as [j|].
        -- destruct Hr as (Hj & Hs & Hm). split; [lia|]. split; [exact Hs|].
           intros i Hi. destruct (Nat.eq_dec i k) as [->|Hne]; [exact Hk|]. apply Hm. lia.
        -- intros i Hi. destruct (Nat.eq_dec i k) as [->|Hne]; [exact Hk|]. apply Hr. lia.
    + intros a Ha. destruct (sll_check k g ft wt a) eqn:Es.
      * exists (Some k). apply in_or_app. left. apply in_map_iff. exists a. split; [reflexivity|].
        apply filter_In. auto.
      * destruct (R2 a) as (r & Hr).
        -- apply filter_In. rewrite Es. auto.
        -- exists r. apply in_or_app. right. exact Hr.
Qed.

Theorem decide_ref_correct fuel K g rows : decide_ref fuel K g = Some rows ->
  (forall a r, In (a, r) rows -> In a (nts g) /\ decide_spec K g a r) /\
  (forall a, In a (nts g) -> exists r, In (a, r) rows).
Proof.
  unfold decide_ref. intros H.
  destruct (decide_loop fuel g K 1 (filter (needs_lookahead g) (nt_keys g))) as [rs|] eqn:E;
    [|discriminate].
  inversion H; subst rows; clear H. apply decide_loop_spec in E as [R1 R2]. split.
  - intros a r Hin. apply in_app_or in Hin as [Hin|Hin].
    + unfold trivial_rows in Hin. apply in_flat_map in Hin as (b & Hb & Hin).
      apply in_nt_keys in Hb. unfold decide_spec.
      destruct (prods_of g b) as [|p [|q l]] eqn:Ep; simpl in Hin.
      * destruct Hin as [Hin|[]]. inversion Hin; subst. rewrite Ep. auto.
      * destruct Hin as [Hin|[]]. inversion Hin; subst. rewrite Ep. auto.
      * destruct Hin.
    + apply R1 in Hin as [Hp Hr]. apply filter_In in Hp as [Hp1 Hp2]. apply in_nt_keys in Hp1.
      split; [exact Hp1|]. unfold decide_spec. unfold needs_lookahead in Hp2.
      destruct (prods_of g a) as [|p [|q l]]; try discriminate.
      destruct r as [j|].
      * destruct Hr as (Hj & Hs & Hm). split; [lia|]. split; [exact Hs|].
        intros i Hi. apply Hm. lia.
      * intros i Hi. apply Hr. lia.
  - intros a Ha. apply in_nt_keys in Ha. destruct (needs_lookahead g a) eqn:En.
    + destruct (R2 a) as (r & Hr); [apply filter_In; auto|].
      exists r. apply in_or_app. right. exact Hr.
    + unfold needs_lookahead in En.
      destruct (prods_of g a) as [|p [|q l]] eqn:Ep; try discriminate.
      * exists None. apply in_or_app. left. apply in_flat_map. exists a.
        split; [exact Ha|]. rewrite Ep. left. reflexivity.
      * exists (Some 0). apply in_or_app. left. apply in_flat_map. exists a.
        split; [exact Ha|]. rewrite Ep. left. reflexivity.
Qed.

(** ** Examples *)

(** [S -> A a | b ;  A -> ε | c A]   with S = 0, A = 1, a = 5, b = 6, c = 7. *)
Definition g1 : cfg :=
  mkCfg 0 [mkProd 0 [NT 1; T 5]; mkProd 0 [T 6]; mkProd 1 []; mkProd 1 [T 7; NT 1]]%N.

Definition g1_first2 : tbl := [(0, [[5]; [6]; [7; 5]; [7; 7]]); (1, [[]; [7]; [7; 7]])]%N.
Definition g1_follow2 : tbl := [(0, [[0]]); (1, [[5; 0]])]%N.

Example g1_first_2 : first_ref 20 2 g1 = Some g1_first2.
Proof. vm_compute. reflexivity. Qed.

Example g1_follow_2 : follow_ref 20 2 g1 g1_first2 = Some g1_follow2.
Proof. vm_compute. reflexivity. Qed.

Example g1_first_of_production :
  first_of_form 2 g1_first2 [NT 1; T 5]%N = [[5]; [7; 5]; [7; 7]]%N.
Proof. vm_compute. reflexivity. Qed.

Example g1_first_3 :
  first_ref 20 3 g1 =
  Some [(0, [[5]; [6]; [7; 5]; [7; 7; 5]; [7; 7; 7]]); (1, [[]; [7]; [7; 7]; [7; 7; 7]])]%N.
Proof. vm_compute. reflexivity. Qed.

Example g1_sll_1 :
  sll_check 2 g1 g1_first2 g1_follow2 0 = true /\ sll_check 2 g1 g1_first2 g1_follow2 1 = true.
Proof. vm_compute. auto. Qed.

Example g1_decide : decide_ref 20 3 g1 = Some [(0%N, Some 1); (1%N, Some 1)].
Proof. vm_compute. reflexivity. Qed.

(** FIRST_0 and FOLLOW_0 are [{ε}] (note: follow.rs puts the one-element string [$] into
    FOLLOW_0 of the start symbol; k = 0 is never used by the decision for non-trivial
    non-terminals). *)
Example g1_k0 :
  first_ref 20 0 g1 = Some [(0, [[]]); (1, [[]])]%N /\
  follow_ref 20 0 g1 [(0, [[]]); (1, [[]])]%N = Some [(0, [[]]); (1, [[]])]%N.
Proof. vm_compute. auto. Qed.

(** [S -> a b | a c] needs two symbols;  [S -> A | a ; A -> a] is not LL(k) for any k, and the
    single-production [A] gets 0. *)
Definition g2 : cfg := mkCfg 0 [mkProd 0 [T 5; T 6]; mkProd 0 [T 5; T 7]]%N.
Definition g3 : cfg := mkCfg 0 [mkProd 0 [NT 1]; mkProd 0 [T 5]; mkProd 1 [T 5]]%N.

Example g2_decide : decide_ref 20 3 g2 = Some [(0%N, Some 2)].
Proof. vm_compute. reflexivity. Qed.
Example g2_decide_K1 : decide_ref 20 1 g2 = Some [(0%N, None)].
Proof. vm_compute. reflexivity. Qed.
Example g3_decide : decide_ref 20 4 g3 = Some [(1%N, Some 0); (0%N, None)].
Proof. vm_compute. reflexivity. Qed.
Example g3_follow_2 :
  follow_ref 20 2 g3 [(0, [[5]]); (1, [[5]])]%N = Some [(0, [[0]]); (1, [[0]])]%N.
Proof. vm_compute. reflexivity. Qed.

(** Left recursion is no problem for the iteration from the empty sets: [A -> A a | b]. *)
Definition g4 : cfg := mkCfg 0 [mkProd 0 [NT 0; T 5]; mkProd 0 [T 6]]%N.
Example g4_first_1 : first_ref 20 1 g4 = Some [(0, [[6]])]%N.
Proof. vm_compute. reflexivity. Qed.
Example g4_first_2 : first_ref 20 2 g4 = Some [(0, [[6]; [6; 5]])]%N.
Proof. vm_compute. reflexivity. Qed.

(** An unproductive tail empties the product ([S -> a B ; B -> B]): FIRST_1(S) = ∅. *)
Definition g5 : cfg := mkCfg 0 [mkProd 0 [T 5; NT 1]; mkProd 1 [NT 1]]%N.
Example g5_first_1 : first_ref 20 1 g5 = Some [(0, []); (1, [])]%N.
Proof. vm_compute. reflexivity. Qed.

Example g1_eoi_free : eoi_free g1 = true.
Proof. reflexivity. Qed.

Example g1_first_prods :
  first_prods 2 g1 g1_first2 = [[[5]; [7; 5]; [7; 7]]; [[6]]; [[]]; [[7]; [7; 7]]]%N.
Proof. vm_compute. reflexivity. Qed.

(** Fuel exhaustion is reported. *)
Example g1_no_fuel : first_ref 2 2 g1 = None.
Proof. vm_compute. reflexivity. Qed.

(** The hypotheses of [sll_check_correct] are satisfiable (by the reference tables). *)
Example sll_check_hyps :
  (forall α u, In u (first_of_form 2 g1_first2 α) <-> First 2 g1 α u) /\
  (forall u, In u (lookup g1_follow2 1%N) <-> Follow 2 g1 1%N u).
Proof.
  split.
  - apply (first_of_form_correct 20 2 g1 g1_first2 g1_first_2).
  - intros u. apply (follow_ref_correct_all 20 20 2 g1 g1_first2 g1_follow2 g1_first_2 g1_follow_2).
Qed.

(** Consequences on the example: membership in the derivation-based sets, by computation. *)
Example g1_Follow_A : forall u, Follow 2 g1 1%N u <-> u = [5; 0]%N.
Proof.
  intros u.
  rewrite <- (follow_ref_correct_all 20 20 2 g1 g1_first2 g1_follow2 g1_first_2 g1_follow_2).
  simpl. intuition.
Qed.

Example g1_SLL_1 : SLL 1 g1 0%N /\ SLL 1 g1 1%N /\ ~ SLL 1 g2 0%N /\ SLL 2 g2 0%N.
Proof.
  pose proof (decide_ref_correct 20 3 g1 _ g1_decide) as [H1 _].
  pose proof (decide_ref_correct 20 3 g2 _ g2_decide) as [H2 _].
  destruct (H1 0%N (Some 1)) as [_ Ha]; [left; reflexivity|].
  destruct (H1 1%N (Some 1)) as [_ Hb]; [right; left; reflexivity|].
  destruct (H2 0%N (Some 2)) as [_ Hc]; [left; reflexivity|].
  unfold decide_spec in Ha, Hb, Hc. simpl in Ha, Hb, Hc.
  destruct Ha as (_ & Ha & _), Hb as (_ & Hb & _), Hc as (_ & Hc & Hm).
  split; [exact Ha|]. split; [exact Hb|]. split; [apply Hm; lia|exact Hc].
Qed.

Print Assumptions first_ref_correct.
Print Assumptions first_ref_correct_all.
Print Assumptions first_of_form_correct.
Print Assumptions first_prods_correct.
Print Assumptions follow_ref_correct.
Print Assumptions follow_ref_correct_all.
Print Assumptions sll_check_correct.
Print Assumptions sll_check_ref_correct.
Print Assumptions decide_ref_correct.
Print Assumptions decide_spec_functional.
