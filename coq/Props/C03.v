(** Property C03 — LALR(1) parsers accept exactly the language and build a derivation.
    Pinned statements only; proofs in Tables/LRValidate.v about the faithful model
    Runtime/LRParser.v of [LRParser::parse_into] / [call_action] / [pop_n].

    The table construction (external crate lalry) is not modelled: whatever table parol produced is
    validated by the executable [lr_validate] (annotation inference + Jourdan-Pottier-Leroy style
    safety check).  For every table that passes, the theorems below hold for ALL inputs.
    Completeness ("every sentence is accepted") is not a theorem here: it is decided per instance
    by comparing the real parser with the verified recogniser [Member.member] on every token string
    up to a length bound — labelled a test in the evidence. *)
From Coq Require Import List NArith.
From Parol Require Import Grammar.Cfg Runtime.LRParser Tables.LRValidate.
Import ListNotations.

(** Soundness, derivation tree, coverage of every token, reductions once each in post-order. *)
Theorem C03_lr_safe_check_sound : forall g tb ann fuel toks reds forest,
  lr_safe_check g tb ann = true -> ~ In 0%N toks ->
  lr_run fuel tb toks = Accepted reds forest ->
  exists t, forest = [t] /\
    lang g toks /\ tree_ok g t /\ yield t = toks /\ root_sym t = NT (start g) /\
    prod_numbers_ok g (postorder t) reds.
Proof. exact lr_safe_check_sound. Qed.

(** The reductions, read backwards, are a rightmost derivation of the input. *)
Theorem C03_reductions_rightmost : forall g tb ann fuel toks reds forest,
  lr_safe_check g tb ann = true -> ~ In 0%N toks ->
  lr_run fuel tb toks = Accepted reds forest ->
  exists ps, prod_numbers_ok g ps reds /\ rm_steps g (rev ps) [NT (start g)] (map T toks).
Proof. exact lr_reductions_rightmost. Qed.

(** No index/unwrap failure and no internal error of the runtime on a validated table. *)
Theorem C03_lr_no_panic : forall g tb ann fuel toks site,
  lr_safe_check g tb ann = true -> Forall (fun t => (t < lr_nterm tb)%N) toks ->
  lr_run fuel tb toks <> Panic site.
Proof. exact lr_no_panic. Qed.

Theorem C03_lr_no_internal_error : forall g tb ann fuel toks site,
  lr_safe_check g tb ann = true -> lr_run fuel tb toks <> InternalErr site.
Proof. exact lr_no_internal_error. Qed.

(** The table lalry builds for  S: A; A: "l" S "r" | "x";  WITHOUT isolating the start symbol
    (defect D1, repaired in augment_grammar) accepts the non-sentence "l x" and is rejected by the
    validator whatever annotation is supplied. *)
Theorem C03_unaugmented_table_never_passes : forall ann, lr_safe_check bad_g bad_tb ann = false.
Proof. exact bad_table_never_passes. Qed.
