(** Property C11 — Grammar well-formedness checks are exact.
    Pinned statements only; proofs in Analysis/WellFormed.v (faithful models of
    calculate_nullable_non_terminals, non_productive_non_terminals, reachable_non_terminals /
    unreachable_non_terminals, detect_left_recursive_non_terminals and the decision order of
    check_and_transform_grammar) against the definitions of Grammar/Sets.v. *)
From Coq Require Import List NArith.
From Parol Require Import Grammar.Cfg Grammar.Sets Analysis.WellFormed.
Import ListNotations.

(** The faithful models compute exactly the defined sets ([None] = the Rust panics: start symbol
    without any production). *)
Theorem C11_nullable_exact : forall g l, nullable_nts g = Some l -> forall a, In a l <-> nullable g a.
Proof. exact nullable_exact. Qed.

Theorem C11_productive_exact : forall g l,
  unproductive_nts g = Some l -> forall a, In a l <-> In a (nts g) /\ ~ productive g a.
Proof. exact productive_exact. Qed.

Theorem C11_reachable_exact : forall g l, reachable_nts g = Some l -> forall a, In a l <-> reachable g a.
Proof. exact reachable_exact. Qed.

Theorem C11_leftrec_exact : forall g l, left_recursive_nts g = Some l -> forall a, In a l <-> left_rec g a.
Proof. exact leftrec_exact. Qed.

Theorem C11_leftrec_iff_derivation : forall g a,
  left_rec g a <-> exists γ, Relation_Operators.clos_trans _ (lm_step g) [NT a] (NT a :: γ).
Proof. exact leftrec_iff_derivation. Qed.

(** The rejection decision: non-productive first, then unreachable, then (LL only) left
    recursion; each error names exactly the offending non-terminals; accepted only if none. *)
Theorem C11_check_decision_exact : forall is_ll g,
  match check_decision is_ll g with
  | NonProductive l =>
      l <> [] /\ (forall a, In a l <-> unproductive_nt g a)
  | Unreachable l =>
      (forall a, ~ unproductive_nt g a) /\
      l <> [] /\ (forall a, In a l <-> unreachable_nt g a)
  | LeftRecursive l =>
      is_ll = true /\ (forall a, ~ unproductive_nt g a) /\ (forall a, ~ unreachable_nt g a) /\
      l <> [] /\ (forall a, In a l <-> left_rec g a)
  | Ok =>
      (forall a, ~ unproductive_nt g a) /\ (forall a, ~ unreachable_nt g a) /\
      (is_ll = true -> forall a, ~ left_rec g a)
  | ModelError => False
  end.
Proof. exact check_decision_exact. Qed.

(** The executable checkers applied to the real implementation's outputs mean what they say. *)
Theorem C11_nullable_check_sound : forall g c, nullable_check g c = true -> forall a, In a c <-> nullable g a.
Proof. exact nullable_check_sound. Qed.
Theorem C11_unproductive_check_iff : forall g c,
  unproductive_check g c = true <-> forall a, In a c <-> unproductive_nt g a.
Proof. exact unproductive_check_iff. Qed.
Theorem C11_reachable_check_iff : forall g c, reachable_check g c = true <-> forall a, In a c <-> reachable g a.
Proof. exact reachable_check_iff. Qed.
Theorem C11_unreachable_check_iff : forall g c,
  unreachable_check g c = true <-> forall a, In a c <-> unreachable_nt g a.
Proof. exact unreachable_check_iff. Qed.
Theorem C11_leftrec_check_sound : forall g c, leftrec_check g c = true -> forall a, In a c <-> left_rec g a.
Proof. exact leftrec_check_sound. Qed.
Theorem C11_decision_check_sound : forall is_ll g claimed,
  decision_check is_ll g claimed = true ->
  match claimed with
  | NonProductive l => forall a, In a l <-> unproductive_nt g a
  | Unreachable l => (forall a, ~ unproductive_nt g a) /\ forall a, In a l <-> unreachable_nt g a
  | LeftRecursive l =>
      is_ll = true /\ (forall a, ~ unproductive_nt g a) /\ (forall a, ~ unreachable_nt g a) /\
      forall a, In a l <-> left_rec g a
  | Ok => (forall a, ~ unproductive_nt g a) /\ (forall a, ~ unreachable_nt g a) /\
          (is_ll = true -> forall a, ~ left_rec g a)
  | ModelError => False
  end.
Proof. exact decision_check_sound. Qed.

(** Finding: with a start symbol that has no production the two functions panic instead of
    answering (reachable only through the public functions, not through
    check_and_transform_grammar, which rejects such a grammar as non-productive first). *)
Theorem C11_panic_iff_start_without_production : forall g,
  nullable_panics g = true <-> nullable_nts g = None /\ left_recursive_nts g = None.
Proof. exact nullable_panics_spec. Qed.

(** Non-vacuity: hidden + indirect left recursion, A: B A x | y; B: eps | z. *)
Example C11_nonvacuous :
  let g := mkCfg 0 [mkProd 0 [NT 1; NT 0; T 5]; mkProd 0 [T 6]; mkProd 1 []; mkProd 1 [T 7]] in
  nullable_nts g = Some [1%N] /\ left_recursive_nts g = Some [0%N] /\
  check_decision true g = LeftRecursive [0%N] /\ check_decision false g = Ok.
Proof. vm_compute. repeat split. Qed.
