(** Extraction of the executable models and checkers to OCaml.
    Only ExtrOcamlBasic and ExtrOcamlString are used; numbers stay Coq datatypes. *)
From Coq Require Import Extraction ExtrOcamlBasic ExtrOcamlString.
From Parol Require Import Runtime.Levenshtein Runtime.LevFaithful Runtime.DfaEval.
Extraction Language OCaml.
Set Extraction Optimize.
Extraction "model.ml" Levenshtein.lev_check Levenshtein.dist LevFaithful.lev
  DfaEval.eval_check DfaEval.sortedb DfaEval.wfd DfaEval.eval DfaEval.eval_old DfaEval.run.
