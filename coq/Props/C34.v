(** Property C34 — parol and its language server accept the same grammar texts.
    The two grammars and the two scanner tables below are REGENERATED from /repo's current
    parol.par, parol_ls.par, parol_parser.rs and parol_ls_parser.rs on every run
    (tools/gen_consts.py -> Gen/ParGrammars.v); the theorems are re-checked against them.

    Syntactic level: the two EBNF grammars generate the same language over token kinds (proved
    equivalence checker of Ls/GrammarEquiv.v: inline the helper ProductionLHS, flatten
    single-alternative groups, then isomorphism up to renaming and order of alternatives).
    Lexical level: the two scanners list the same patterns; entries whose relative order differs
    never match a common non-empty text (proved check of Scanner/Reorder.v), hence tokenisation by
    the longest-match rule is identical.  That scnr2 implements that rule is C13. *)
From Coq Require Import List NArith String.
From Parol Require Import Grammar.Ebnf Scanner.Regex Scanner.RegexEquiv Scanner.LongestMatch Scanner.Reorder Ls.GrammarEquiv Gen.ParGrammars.
Import ListNotations.

Theorem C34_par_grammars_equiv : forall w, elang parol_par w <-> elang parol_ls_par w.
Proof.
  apply (equiv_by_names_sound parol_par_names parol_ls_par_names
           [("RawString", "LiteralString"); ("Parol", "ParolLs")]%string ["ProductionLHS"%string]).
  vm_compute. reflexivity.
Qed.

Theorem C34_scanners_same_tokens : forall s, Forall is_code_point s ->
  tokenize_all [(parol_scanner_entries, [])] s = tokenize_all [(parol_ls_scanner_entries, [])] s.
Proof.
  apply (tokenize_reorder_single 100). vm_compute. reflexivity.
Qed.

(** The checkers mean what they say. *)
Theorem C34_equiv_by_names_sound : forall names1 names2 renames helpers G1 G2,
  equiv_by_names names1 names2 renames helpers G1 G2 = true -> forall w, elang G1 w <-> elang G2 w.
Proof. exact equiv_by_names_sound. Qed.

Theorem C34_reorder_check_sound : forall f es1 es2,
  reorder_check f es1 es2 = true -> forall s, Forall is_code_point s -> best_match es1 s = best_match es2 s.
Proof. exact reorder_check_sound. Qed.
