(** Property C32 — The packed k-tuple representation behaves like a sequence.
    Pinned statements only (generated with tools/pin.py from the proved lemmas); proofs in
    Analysis/KTuple.v over the bit-level model Analysis/KTupleModel.v of `Terminals`,
    `TerminalString`, `KTuple` (k_tuple.rs).  [denote p = Some L]: the 128-bit word [p] is
    well-formed and denotes the sequence [L] of terms (Trm i | Eps | End); the [a_*] functions are
    the abstract sequence operations.  [dbg] = debug assertions on/off. *)
From Coq Require Import List NArith.
From Parol Require Import Analysis.KTupleModel Analysis.KTupleBits Analysis.KTuple.
Import ListNotations.

Theorem C32_wf_new :
  forall (dbg : bool) (m : N),
  (m <= 4094)%N ->
  exists p : packed,
  new dbg m = Ok p /\ wf p /\ denote p = Some [] /\ bits p = (N.log2 (m + 1) + 1)%N.
Proof. exact wf_new. Qed.

Theorem C32_new_panics :
  forall (dbg : bool) (m : N), (4095 <= m)%N -> new dbg m = Panic.
Proof. exact new_panics. Qed.

Theorem C32_denote_eps :
  forall (dbg : bool) (m : N),
  (m <= 4094)%N ->
  exists p : packed,
  eps dbg m = Ok p /\ wf p /\ denote p = Some [Eps] /\ bits p = (N.log2 (m + 1) + 1)%N.
Proof. exact denote_eps. Qed.

Theorem C32_denote_end :
  forall (dbg : bool) (m : N),
  (m <= 4094)%N ->
  exists p : packed,
  end_ dbg m = Ok p /\ wf p /\ denote p = Some [End] /\ bits p = (N.log2 (m + 1) + 1)%N.
Proof. exact denote_end. Qed.

Theorem C32_denote_push :
  forall (dbg : bool) (p : packed) (L : list term) (tm : N),
  denote p = Some L ->
  arg_ok p tm ->
  match a_push L (term_of p tm) with
  | Some L' =>
  exists p' : packed,
  push dbg p tm = Ok (Some p') /\ wf p' /\ denote p' = Some L' /\ bits p' = bits p
  | None => push dbg p tm = Ok None
  end.
Proof. exact denote_push. Qed.

Theorem C32_denote_extend :
  forall (dbg : bool) (p : packed) (L : list term) (ts : list N),
  denote p = Some L ->
  Forall (arg_ok p) ts ->
  exists p' : packed,
  extend dbg p ts = Ok p' /\
  wf p' /\ denote p' = Some (a_extend L (map (term_of p) ts)) /\ bits p' = bits p.
Proof. exact denote_extend. Qed.

Theorem C32_denote_of :
  forall (dbg : bool) (p : packed) (L : list term) (k : N),
  denote p = Some L ->
  exists p' : packed,
  of_ dbg k p = Ok p' /\ wf p' /\ denote p' = Some (a_of k L) /\ bits p' = bits p.
Proof. exact denote_of. Qed.

Theorem C32_denote_k_concat :
  forall (dbg : bool) (a b : packed) (La Lb : list term) (k : N),
  denote a = Some La ->
  denote b = Some Lb ->
  bits a = bits b ->
  (k <= MAX_K)%N ->
  exists c : packed,
  k_concat dbg a b k = Ok c /\ wf c /\ denote c = Some (a_concat k La Lb) /\ bits c = bits a.
Proof. exact denote_k_concat. Qed.

Theorem C32_denote_clear :
  forall (dbg : bool) (p : packed) (L : list term),
  denote p = Some L ->
  exists p' : packed, clear dbg p = Ok p' /\ wf p' /\ denote p' = Some [] /\ bits p' = bits p.
Proof. exact denote_clear. Qed.

Theorem C32_denote_get :
  forall (p : packed) (L : list term) (i : N),
  denote p = Some L -> get p i = Ok (option_map enc16 (nth_error L (N.to_nat i))).
Proof. exact denote_get. Qed.

Theorem C32_denote_iter :
  forall (p : packed) (L : list term), denote p = Some L -> iter p = map enc16 L.
Proof. exact denote_iter. Qed.

Theorem C32_denote_len :
  forall (p : packed) (L : list term), denote p = Some L -> len p = lenN L.
Proof. exact denote_len. Qed.

Theorem C32_denote_k_len :
  forall (p : packed) (L : list term) (k : N),
  denote p = Some L -> k_len p k = N.min (lenN L) k.
Proof. exact denote_k_len. Qed.

Theorem C32_denote_is_eps :
  forall (p : packed) (L : list term), denote p = Some L -> is_eps p = a_is_eps L.
Proof. exact denote_is_eps. Qed.

Theorem C32_denote_is_k_complete :
  forall (p : packed) (L : list term) (k : N),
  denote p = Some L -> is_k_complete p k = Ok (a_complete k L).
Proof. exact denote_is_k_complete. Qed.

Theorem C32_eq_iff_denote :
  forall a b : packed, wf a -> wf b -> bits a = bits b -> a = b <-> denote a = denote b.
Proof. exact eq_iff_denote. Qed.

Theorem C32_cmp_spec :
  forall (a b : packed) (La Lb : list term),
  denote a = Some La ->
  denote b = Some Lb -> bits a = bits b -> cmp a b = Ok (seq_cmp (mask a) La Lb).
Proof. exact cmp_spec. Qed.

Theorem C32_cmp_total_order :
  forall a b c : packed,
  wf a ->
  wf b ->
  wf c ->
  cmp a a = Ok Eq /\
  (exists r : comparison, cmp a b = Ok r /\ cmp b a = Ok (CompOpp r)) /\
  (cmp a b = Ok Lt -> cmp b c = Ok Lt -> cmp a c = Ok Lt) /\
  (cmp a b = Ok Eq -> cmp a c = cmp b c) /\ (bits a = bits b -> cmp a b = Ok Eq <-> a = b).
Proof. exact cmp_total_order. Qed.

Theorem C32_eps_never_a_terminal :
  forall (dbg : bool) (m : N) (p : packed),
  new dbg m = Ok p ->
  mask p = (2 ^ bits p - 1)%N /\
  (m + 1 < 2 ^ bits p)%N /\
  term_of p EPS = Eps /\
  (forall i : N,
  (i <= m)%N ->
  (i < mask p)%N /\
  N.land i (mask p) = i /\ term_of p i = (if (i =? 0)%N then End else Trm i)).
Proof. exact eps_never_a_terminal. Qed.

Theorem C32_concat_no_overflow :
  forall (a b : packed) (La Lb : list term) (k : N),
  denote a = Some La ->
  denote b = Some Lb ->
  bits a = bits b ->
  (k <= MAX_K)%N ->
  a_is_eps La = false ->
  a_complete k La = false ->
  a_is_eps Lb = false ->
  Lb <> [] ->
  let my_k_len := k_len a k in
  let to_take := N.min (k - my_k_len) (k_len b k) in
  (1 <= to_take)%N /\
  (my_k_len + to_take <= MAX_K)%N /\
  (exists m value : N,
  shl128 U128_MAX (to_take * bits a) = Ok m /\
  shl128 (N.land (t b) (not128 m)) (my_k_len * bits a) = Ok value /\ (value < 2 ^ 120)%N).
Proof. exact concat_no_overflow. Qed.

Theorem C32_new_boundary_lo :
  forall (dbg : bool) (b : N),
  (1 <= b <= 12)%N ->
  exists p : packed, new dbg (2 ^ b - 2) = Ok p /\ bits p = b /\ mask p = (2 ^ b - 2 + 1)%N.
Proof. exact new_boundary_lo. Qed.

Theorem C32_new_boundary_hi :
  forall (dbg : bool) (b : N),
  (1 <= b <= 11)%N -> exists p : packed, new dbg (2 ^ b - 1) = Ok p /\ bits p = (b + 1)%N.
Proof. exact new_boundary_hi. Qed.

Theorem C32_concat_canonical :
  forall (dbg : bool) (x y : ktuple) (tx : bool) (Lx : list term) 
  (kx : N) (ty : bool) (Ly : list term) (ky k : N),
  kt_denote x = Some (tx, Lx, kx) ->
  kt_denote y = Some (ty, Ly, ky) ->
  kt_bits x = kt_bits y ->
  (k <= MAX_K)%N ->
  (tx = true -> a_complete k Lx = true) ->
  exists z : ktuple, kt_k_concat dbg x y k = Ok z /\ kt_bits z = kt_bits x /\ kt_canonical k z.
Proof. exact concat_canonical. Qed.

Theorem C32_ktuple_eq_by_sequence_refuted :
  exists (x y : ktuple) (tx : bool) (L : list term) (kx ky : N),
  kt_eps true 3 1 = Ok x /\
  kt_k_concat true x x 3 = Ok y /\
  kt_denote x = Some (tx, L, kx) /\
  kt_denote y = Some (tx, L, ky) /\ kt_bits x = kt_bits y /\ kt_eqb x y = false /\ x <> y.
Proof. exact ktuple_eq_by_sequence_refuted. Qed.

Theorem C32_denote_k_concat_large_k_refuted :
  exists (a b : packed) (k : N) (La Lb : list term),
  denote a = Some La /\
  denote b = Some Lb /\
  bits a = bits b /\
  k = (MAX_K + 1)%N /\
  k_concat true a b k = Panic /\
  (exists c : packed, k_concat false a b k = Ok c /\ wfb c = false /\ len c = 11%N).
Proof. exact denote_k_concat_large_k_refuted. Qed.

