(** Property C09 — EBNF canonicalization preserves the language.
    Pinned statements only (generated with tools/pin.py); proofs in Grammar/Ebnf.v,
    Transform/Names.v, Transform/Canon.v, Transform/CanonProofs.v.
    [canon] is the faithful model of transform_productions (after the "fix:" commit that makes
    variable_names look inside groups / repetitions / optionals); [canon_old] is the pinned
    behaviour ([C09_canon_fresh_refuted]).  [emember] is the verified EBNF recogniser used as the
    independent oracle on the grammar as written. *)
From Coq Require Import List NArith String.
From Parol Require Import Grammar.Cfg Grammar.Ebnf Transform.Names Transform.Canon Transform.CanonProofs.
Import ListNotations.

Theorem C09_emember_sound :
  forall (fuel : nat) (G : egrammar) (w : list N), emember fuel G w = Some true -> elang G w.
Proof. exact emember_sound. Qed.

Theorem C09_emember_complete :
  forall (fuel : nat) (G : egrammar) (w : list N),
  emember fuel G w = Some false -> ~ elang G w.
Proof. exact emember_complete. Qed.

Theorem C09_emember_fuel_suffices :
  forall (G : egrammar) (w : list N) (fuel : nat),
  emember_fuel G w <= fuel -> emember fuel G w <> None.
Proof. exact emember_fuel_suffices. Qed.

Theorem C09_generate_name_fresh :
  forall (excl : list string) (pref : string), ~ In (generate_name excl pref) excl.
Proof. exact generate_name_fresh. Qed.

Theorem C09_canon_step_preserves :
  forall (is_lr : bool) (X : N) (ps ps' : list eprod) (F : option factor),
  rewrite is_lr X ps ps' F ->
  gfree X ps = true ->
  (forall (fs : list factor) (w : list N), sfree X fs = true -> mseq ps fs w <-> mseq ps' fs w) /\
  (forall f : factor, F = Some f -> forall w : list N, mfac ps' (FN X) w <-> mfac ps f w).
Proof. exact canon_step_preserves. Qed.

Theorem C09_canon_measure_decreases :
  forall (is_lr : bool) (X : N) (ps ps' : list eprod) (F : option factor),
  rewrite is_lr X ps ps' F -> cmeasure ps' < cmeasure ps.
Proof. exact canon_measure_decreases. Qed.

Theorem C09_canon_terminates :
  forall (fuel : nat) (is_lr : bool) (G : egrammar) (names : list string),
  canon_fuel G <= fuel -> canon fuel is_lr G names <> Err OutOfFuel.
Proof. exact canon_terminates. Qed.

Theorem C09_canon_preserves_lang :
  forall (fuel : nat) (is_lr : bool) (G : egrammar) (names : list string) 
  (B : cfg) (names' : list string),
  canon fuel is_lr G names = Ok (B, names') ->
  names_cover G names ->
  start B = estart G /\
  (forall a : N, In a (ents G) -> forall w : list N, derives B [NT a] w <-> ematch G [FN a] w).
Proof. exact canon_preserves_lang. Qed.

Theorem C09_canon_preserves_language :
  forall (fuel : nat) (is_lr : bool) (G : egrammar) (names : list string) 
  (B : cfg) (names' : list string),
  canon fuel is_lr G names = Ok (B, names') ->
  names_cover G names -> forall w : list N, lang B w <-> elang G w.
Proof. exact canon_preserves_language. Qed.

Theorem C09_canon_fresh :
  forall (fuel : nat) (is_lr : bool) (G : egrammar) (names : list string) 
  (B : cfg) (names' : list string),
  canon fuel is_lr G names = Ok (B, names') ->
  names_used G names ->
  NoDup names -> NoDup names' /\ (exists helpers : list string, names' = names ++ helpers).
Proof. exact canon_fresh. Qed.

Theorem C09_no_optional_after_extract :
  forall (deep : bool) (fuel : nat) (st st' : cstate),
  extract_loop deep fuel st = Ok st' -> gnoopt (st_ps st') = true.
Proof. exact no_optional_after_extract. Qed.

Theorem C09_canon_fresh_refuted :
  exists (G : egrammar) (names : list string) (B : cfg) (names' : list string),
  canon_old (canon_fuel G) true G names = Ok (B, names') /\
  names_cover G names /\ names_used G names /\ NoDup names /\ ~ NoDup names'.
Proof. exact canon_fresh_refuted. Qed.

