(** * C11 — parol's grammar well-formedness checks are exact.

    Faithful executable models of

    - [Cfg::calculate_nullable_non_terminals]            (crates/parol/src/grammar/cfg.rs)
    - [non_productive_non_terminals]                     (analysis/productivity.rs)
    - [reachable_non_terminals], [unreachable_non_terminals] (analysis/reachability.rs)
    - [detect_left_recursive_non_terminals]              (analysis/left_recursion.rs)
    - the checking part of [check_and_transform_grammar] (generators/grammar_trans.rs)

    and proofs that they compute exactly the sets defined in [Grammar/Sets.v].

    Modelling decisions (all stated here, none hidden):

    - Non-terminal names are numbers.  A Rust [BTreeSet<String>] / sorted [Vec<String>] is
      modelled by a strictly ascending [list N] ([to_set]); this is the same order as the Rust
      one iff the numbering of names is monotone w.r.t. string order (e.g. the index in
      [get_non_terminal_set]).  All theorems are about membership, and the exported checkers
      compare as sets, so nothing depends on that.
    - A Rust [HashSet<String>] is modelled by a duplicate-free [list N] with insertion at the
      front.  The only place where the Rust code iterates over a [HashSet] (the inner loop of
      the transitive closure in [detect_left_recursive_non_terminals]) is modelled in list
      order; the proofs use membership only.
    - "The non-terminals of g" is [Cfg::get_non_terminal_set]: the start symbol, every left-hand
      side and every right-hand-side occurrence, i.e. exactly [Grammar.Cfg.nts].  A non-terminal
      that occurs only on a right-hand side is a member; it has no production, so it is
      unproductive, and the Rust code reports it ([combine_production_equation] yields the
      constant [false] function for it).
    - Every loop "repeat until nothing changed" is [iter_until] on explicit fuel; exhaustion
      and every Rust panic ([unwrap], [expect], index out of range) yield [None].  The
      [*_total] lemmas show that with the fuel computed by the models [None] arises only for
      the one real panic: [calculate_nullable_non_terminals] (hence also
      [detect_left_recursive_non_terminals]) panics with "Start symbol not found in any
      production" when the start symbol has no production.  [check_and_transform_grammar]
      never reaches it, because such a grammar is rejected as non-productive first.
    - [GrammarAnalysisError::LeftRecursion] carries the list of left-recursive non-terminal
      names (numbered in list order), not recursion paths; the model carries that list. *)
From Coq Require Import List NArith Arith Bool Lia Relations Sorted.
From Parol Require Import Grammar.Cfg Grammar.Sets.
Import ListNotations.

(** ** Finite sets of numbers as lists *)

Definition mem (a : N) (l : list N) : bool := existsb (N.eqb a) l.

Lemma mem_In a l : mem a l = true <-> In a l.
Proof.
  unfold mem. rewrite existsb_exists. split.
  - intros (x & Hx & E). apply N.eqb_eq in E. subst. exact Hx.
  - intros H. exists a. split; [exact H|apply N.eqb_refl].
Qed.

Lemma mem_false a l : mem a l = false <-> ~ In a l.
Proof. rewrite <- mem_In. destruct (mem a l); split; congruence. Qed.

(** [HashSet::insert] *)
Definition add (a : N) (l : list N) : list N := if mem a l then l else a :: l.

Lemma In_add x a l : In x (add a l) <-> x = a \/ In x l.
Proof.
  unfold add. destruct (mem a l) eqn:E; simpl; [|intuition congruence].
  apply mem_In in E. split; [auto|]. intros [->|H]; assumption.
Qed.

Lemma NoDup_add a l : NoDup l -> NoDup (add a l).
Proof.
  intros H. unfold add. destruct (mem a l) eqn:E; [exact H|].
  constructor; [apply mem_false; exact E|exact H].
Qed.

(** Sorted duplicate-free list: models [BTreeSet] *)
Fixpoint ins (a : N) (l : list N) : list N :=
  match l with
  | [] => [a]
  | b :: l' =>
      match N.compare a b with
      | Lt => a :: l
      | Eq => l
      | Gt => b :: ins a l'
      end
  end.

Definition to_set (l : list N) : list N := fold_right ins [] l.

Lemma In_ins x a l : In x (ins a l) <-> x = a \/ In x l.
Proof.
  induction l as [|b l IH]; simpl; [intuition congruence|].
  destruct (N.compare_spec a b) as [E|E|E]; simpl.
  - subst. intuition congruence.
  - intuition congruence.
  - rewrite IH. intuition congruence.
Qed.

Lemma In_to_set x l : In x (to_set l) <-> In x l.
Proof.
  induction l as [|a l IH]; simpl; [tauto|]. rewrite In_ins, IH. intuition congruence.
Qed.

Lemma ins_sorted a l : StronglySorted N.lt l -> StronglySorted N.lt (ins a l).
Proof.
  induction l as [|b l IH]; intros H; simpl.
  - constructor; constructor.
  - inversion H as [|b' l' Hs Hf]; subst.
    destruct (N.compare_spec a b) as [E|E|E].
    + exact H.
    + constructor; [exact H|]. constructor; [exact E|].
      eapply Forall_impl; [|exact Hf]. intros c Hc. simpl in Hc. lia.
    + constructor; [apply IH; exact Hs|].
      apply Forall_forall. intros c Hc. apply In_ins in Hc as [->|Hc]; [exact E|].
      rewrite Forall_forall in Hf. apply Hf. exact Hc.
Qed.

Lemma to_set_sorted l : StronglySorted N.lt (to_set l).
Proof. induction l as [|a l IH]; simpl; [constructor|apply ins_sorted; exact IH]. Qed.

Lemma sorted_NoDup l : StronglySorted N.lt l -> NoDup l.
Proof.
  induction 1 as [|a l _ IH Hf]; constructor; [|exact IH].
  intros Hin. rewrite Forall_forall in Hf. apply Hf in Hin. lia.
Qed.

(** Order- and duplicate-insensitive equality of sets given as lists *)
Definition subset_b (l1 l2 : list N) : bool := forallb (fun a => mem a l2) l1.
Definition set_eqb (l1 l2 : list N) : bool := subset_b l1 l2 && subset_b l2 l1.

Lemma set_eqb_spec l1 l2 : set_eqb l1 l2 = true <-> (forall a, In a l1 <-> In a l2).
Proof.
  unfold set_eqb, subset_b. rewrite andb_true_iff, !forallb_forall. split.
  - intros [H1 H2] a. split; intros H; apply mem_In; auto.
  - intros H. split; intros a Ha; apply mem_In; apply H; exact Ha.
Qed.

(** ** Lists that only grow at the front *)

Definition ext {A} (l l' : list A) : Prop := exists d, l' = d ++ l.

Lemma ext_refl {A} (l : list A) : ext l l.
Proof. exists []. reflexivity. Qed.

Lemma ext_trans {A} (l1 l2 l3 : list A) : ext l1 l2 -> ext l2 l3 -> ext l1 l3.
Proof. intros (d1 & ->) (d2 & ->). exists (d2 ++ d1). apply app_assoc. Qed.

Lemma ext_length {A} (l l' : list A) : ext l l' -> length l <= length l'.
Proof. intros (d & ->). rewrite app_length. lia. Qed.

Lemma ext_same_length {A} (l l' : list A) : ext l l' -> length l' <= length l -> l' = l.
Proof.
  intros (d & ->) H. rewrite app_length in H. destruct d as [|x d]; [reflexivity|simpl in H; lia].
Qed.

Lemma ext_incl {A} (l l' : list A) : ext l l' -> incl l l'.
Proof. intros (d & ->) x Hx. apply in_or_app. right. exact Hx. Qed.

Lemma ext_add a l : ext l (add a l).
Proof. unfold add. destruct (mem a l); [apply ext_refl|exists [a]; reflexivity]. Qed.

Lemma add_fix a l : add a l = l -> In a l.
Proof.
  unfold add. destruct (mem a l) eqn:E; intros H; [apply mem_In; exact E|].
  apply (f_equal (@length N)) in H. simpl in H. lia.
Qed.

Lemma fold_ext {A X} (f : list A -> X -> list A) :
  (forall acc x, ext acc (f acc x)) -> forall xs r, ext r (fold_left f xs r).
Proof.
  intros Hf xs. induction xs as [|x xs IH]; intros r; simpl; [apply ext_refl|].
  eapply ext_trans; [apply Hf|apply IH].
Qed.

(** If a whole fold returns its input unchanged then so did every single step. *)
Lemma fold_ext_fix {A X} (f : list A -> X -> list A) :
  (forall acc x, ext acc (f acc x)) ->
  forall xs r, fold_left f xs r = r -> forall x, In x xs -> f r x = r.
Proof.
  intros Hf xs. induction xs as [|y xs IH]; intros r Hr x Hx; [destruct Hx|].
  simpl in Hr.
  assert (Hy : f r y = r).
  { apply ext_same_length; [apply Hf|].
    pose proof (ext_length _ _ (fold_ext f Hf xs (f r y))) as H. rewrite Hr in H. exact H. }
  destruct Hx as [<-|Hx]; [exact Hy|]. rewrite Hy in Hr. apply IH; assumption.
Qed.

Lemma fold_inv {A X} (f : A -> X -> A) (I : A -> Prop) xs :
  (forall acc x, In x xs -> I acc -> I (f acc x)) -> forall r, I r -> I (fold_left f xs r).
Proof.
  induction xs as [|x xs IH]; intros Hf r Hr; simpl; [exact Hr|].
  apply IH; [intros acc y Hy; apply Hf; right; exact Hy|apply Hf; [left; reflexivity|exact Hr]].
Qed.

(** ** "Repeat until nothing changed" on fuel *)

Fixpoint iter_until {A} (fuel : nat) (step : A -> option (A * bool)) (x : A) : option A :=
  match fuel with
  | O => None
  | S f =>
      match step x with
      | None => None
      | Some (x', true) => iter_until f step x'
      | Some (x', false) => Some x'
      end
  end.

Lemma iter_until_inv {A} (I : A -> Prop) (step : A -> option (A * bool)) :
  (forall x x' c, I x -> step x = Some (x', c) -> I x') ->
  forall fuel x y, I x -> iter_until fuel step x = Some y ->
  exists x0, I x0 /\ step x0 = Some (y, false).
Proof.
  intros Hp fuel. induction fuel as [|f IH]; intros x y Hx H; simpl in H; [discriminate|].
  destruct (step x) as [[x' [|]]|] eqn:E; [| |discriminate].
  - apply (IH x'); [eapply Hp; eauto|exact H].
  - inversion H; subst. exists x. auto.
Qed.

Lemma iter_until_terminates {A} (I : A -> Prop) (m : A -> nat) (B : nat)
      (step : A -> option (A * bool)) :
  (forall x x' c, I x -> step x = Some (x', c) -> I x') ->
  (forall x, I x -> exists x' c, step x = Some (x', c) /\ (c = true -> m x < m x')) ->
  (forall x, I x -> m x <= B) ->
  forall fuel x, I x -> B - m x < fuel -> exists y, iter_until fuel step x = Some y.
Proof.
  intros Hp Hs Hb fuel. induction fuel as [|f IH]; intros x Hx Hf; [lia|].
  simpl. destruct (Hs x Hx) as (x' & c & E & Hc). rewrite E.
  destruct c; [|eauto].
  apply IH; [eapply Hp; eauto|].
  specialize (Hc eq_refl). pose proof (Hb x' (Hp _ _ _ Hx E)). lia.
Qed.

(** ** The set and the ordering of non-terminals *)

(** [Cfg::get_non_terminal_set] *)
Definition nt_set (g : cfg) : list N := to_set (nts g).

Lemma In_nt_set g a : In a (nt_set g) <-> In a (nts g).
Proof. apply In_to_set. Qed.

(** [Cfg::get_non_terminal_ordering], names only.  The Rust vector holds pairs (name, position);
    positions are pairwise different, so the only entry that is ever suppressed by the
    [contains] test is the left-hand side of the first production of the start symbol (it is
    the initial entry).  The names therefore come with repetitions.  [None]: the
    [expect("Start symbol not found in any production")] panic. *)
Fixpoint ordering_tail (st : N) (found : bool) (ps : list prod) : list N :=
  match ps with
  | [] => []
  | p :: ps' =>
      if negb found && N.eqb (lhs p) st
      then rhs_nts (rhs p) ++ ordering_tail st true ps'
      else lhs p :: rhs_nts (rhs p) ++ ordering_tail st found ps'
  end.

Definition has_prods (g : cfg) (a : N) : bool := existsb (fun p => N.eqb (lhs p) a) (prods g).

Definition nt_ordering (g : cfg) : option (list N) :=
  if has_prods g (start g)
  then Some (start g :: ordering_tail (start g) false (prods g))
  else None.

Lemma has_prods_true g a : has_prods g a = true <-> exists p, In p (prods g) /\ lhs p = a.
Proof.
  unfold has_prods. rewrite existsb_exists. split; intros (p & Hp & E); exists p;
    (split; [exact Hp|apply N.eqb_eq; exact E]).
Qed.

Lemma has_prods_false g a : has_prods g a = false <-> prods_of g a = [].
Proof.
  split.
  - intros H. destruct (prods_of g a) as [|p l] eqn:E; [reflexivity|].
    assert (Hp : In p (prods_of g a)) by (rewrite E; left; reflexivity).
    apply in_prods_of in Hp. assert (has_prods g a = true) by (apply has_prods_true; eauto).
    congruence.
  - intros H. destruct (has_prods g a) eqn:E; [|reflexivity].
    apply has_prods_true in E as (p & Hp & Hl).
    assert (Hi : In p (prods_of g a)) by (apply in_prods_of; auto). rewrite H in Hi. destruct Hi.
Qed.

Lemma In_ordering_tail st found ps a :
  In a (st :: ordering_tail st found ps) <->
  a = st \/ In a (flat_map (fun p => lhs p :: rhs_nts (rhs p)) ps).
Proof.
  revert found. induction ps as [|p ps IH]; intros found; simpl; [intuition congruence|].
  destruct (negb found && N.eqb (lhs p) st) eqn:E.
  - apply andb_prop in E as [_ E]. apply N.eqb_eq in E.
    specialize (IH true). simpl in IH. rewrite !in_app_iff.
    intuition congruence.
  - specialize (IH found). simpl in IH |- *. rewrite !in_app_iff. intuition congruence.
Qed.

Lemma nt_ordering_In g vars : nt_ordering g = Some vars -> forall a, In a vars <-> In a (nts g).
Proof.
  unfold nt_ordering. destruct (has_prods g (start g)); [|discriminate].
  intros H a. inversion H; subst. rewrite In_ordering_tail. unfold nts. simpl.
  intuition congruence.
Qed.

Lemma nt_ordering_None g : nt_ordering g = None <-> prods_of g (start g) = [].
Proof.
  unfold nt_ordering. rewrite <- has_prods_false.
  destruct (has_prods g (start g)); split; congruence.
Qed.

(** ** Folds that conditionally insert the current element *)

Definition cond_add (c : list N -> N -> bool) (acc : list N) (v : N) : list N :=
  if c acc v then add v acc else acc.

Lemma cond_add_ext c acc v : ext acc (cond_add c acc v).
Proof. unfold cond_add. destruct (c acc v); [apply ext_add|apply ext_refl]. Qed.

Lemma cond_add_fold_NoDup c vars acc :
  NoDup acc -> NoDup (fold_left (cond_add c) vars acc).
Proof.
  apply (fold_inv (cond_add c) (@NoDup N)).
  intros a x _ Ha. unfold cond_add. destruct (c a x); [apply NoDup_add|]; exact Ha.
Qed.

Lemma cond_add_fold_incl c vars acc l :
  incl vars l -> incl acc l -> incl (fold_left (cond_add c) vars acc) l.
Proof.
  intros Hv. apply (fold_inv (cond_add c) (fun a => incl a l)).
  intros a x Hx Ha. unfold cond_add. destruct (c a x); [|exact Ha].
  intros y Hy. apply In_add in Hy as [->|Hy]; [apply Hv; exact Hx|apply Ha; exact Hy].
Qed.

Lemma cond_add_fold_sound c (P : N -> Prop) vars acc :
  (forall a v, In v vars -> (forall x, In x a -> P x) -> c a v = true -> P v) ->
  (forall x, In x acc -> P x) -> forall x, In x (fold_left (cond_add c) vars acc) -> P x.
Proof.
  intros Hc. apply (fold_inv (cond_add c) (fun a => forall x, In x a -> P x)).
  intros a v Hv Ha x Hx. unfold cond_add in Hx. destruct (c a v) eqn:E; [|apply Ha; exact Hx].
  apply In_add in Hx as [->|Hx]; [eapply Hc; eauto|apply Ha; exact Hx].
Qed.

Lemma cond_add_fold_fix c vars acc :
  fold_left (cond_add c) vars acc = acc -> forall v, In v vars -> c acc v = true -> In v acc.
Proof.
  intros H v Hv Hc.
  pose proof (fold_ext_fix (cond_add c) (cond_add_ext c) vars acc H v Hv) as Hf.
  unfold cond_add in Hf. rewrite Hc in Hf. apply add_fix. exact Hf.
Qed.

(** ** Nullable non-terminals: [Cfg::calculate_nullable_non_terminals] *)

Definition is_nil {A} (l : list A) : bool := match l with [] => true | _ => false end.

(** [initial_nullables]: the non-terminals with an empty production. *)
Definition nullable_seed (g : cfg) (vars : list N) : list N :=
  fold_left (cond_add (fun _ v => existsb (fun p => is_nil (rhs p)) (prods_of g v))) vars [].

(** [is_already_nullable] *)
Definition sym_in (nl : list N) (s : sym) : bool :=
  match s with NT n => mem n nl | T _ => false end.

(** [has_nullable_alt] *)
Definition has_nullable_alt (g : cfg) (nl : list N) (v : N) : bool :=
  existsb (fun p => forallb (sym_in nl) (rhs p)) (prods_of g v).

(** [collect_nullables]: one sweep over [vars], inserting in place; reports growth. *)
Definition nullable_sweep (g : cfg) (vars : list N) (nl : list N) : list N :=
  fold_left (cond_add (has_nullable_alt g)) vars nl.

Definition nullable_round (g : cfg) (vars : list N) (nl : list N) : option (list N * bool) :=
  let nl' := nullable_sweep g vars nl in Some (nl', length nl <? length nl').

(** The [HashSet] before it is drained into the [BTreeSet]. *)
Definition nullable_raw (g : cfg) : option (list N) :=
  match nt_ordering g with
  | None => None
  | Some vars => iter_until (S (length vars)) (nullable_round g vars) (nullable_seed g vars)
  end.

Definition nullable_nts (g : cfg) : option (list N) := option_map to_set (nullable_raw g).

Lemma forallb_sym_in nl r :
  forallb (sym_in nl) r = true <-> forall s, In s r -> exists b, s = NT b /\ In b nl.
Proof.
  rewrite forallb_forall. split; intros H s Hs.
  - specialize (H s Hs). destruct s as [t|b]; simpl in H; [discriminate|].
    exists b. split; [reflexivity|apply mem_In; exact H].
  - destruct (H s Hs) as (b & -> & Hb). simpl. apply mem_In. exact Hb.
Qed.

Lemma has_nullable_alt_sound g nl v :
  (forall x, In x nl -> nullable g x) -> has_nullable_alt g nl v = true -> nullable g v.
Proof.
  intros Hnl H. unfold has_nullable_alt in H. apply existsb_exists in H as (p & Hp & H).
  apply in_prods_of in Hp as [Hp Hl]. apply nullable_step. exists p.
  split; [exact Hp|split; [exact Hl|]]. intros s Hs.
  destruct (proj1 (forallb_sym_in nl (rhs p)) H s Hs) as (b & -> & Hb). exists b. auto.
Qed.

Lemma nullable_seed_sound g vars x : In x (nullable_seed g vars) -> nullable g x.
Proof.
  unfold nullable_seed. apply cond_add_fold_sound; [|intros y []].
  intros a v _ _ H. apply existsb_exists in H as (p & Hp & H).
  apply in_prods_of in Hp as [Hp Hl]. apply nullable_step. exists p.
  split; [exact Hp|split; [exact Hl|]]. destruct (rhs p); [intros s []|discriminate].
Qed.

Lemma nullable_sweep_sound g vars nl :
  (forall x, In x nl -> nullable g x) -> forall x, In x (nullable_sweep g vars nl) -> nullable g x.
Proof.
  unfold nullable_sweep. apply cond_add_fold_sound.
  intros a v _ Ha H. eapply has_nullable_alt_sound; eauto.
Qed.

(** A set closed under [has_nullable_alt] for every left-hand side contains every nullable
    non-terminal. *)
Lemma nullable_closed_complete g nl :
  (forall v, has_prods g v = true -> has_nullable_alt g nl v = true -> In v nl) ->
  forall α w, derives g α w -> w = [] -> forall s, In s α -> exists b, s = NT b /\ In b nl.
Proof.
  intros Hc. induction 1 as [|t α w H IH|a p α u v Hin Hl Hr IHr Ha IHa]; intros Hw s Hs.
  - destruct Hs.
  - discriminate.
  - apply app_eq_nil in Hw as [-> ->]. destruct Hs as [<-|Hs]; [|apply IHa; auto].
    exists a. split; [reflexivity|]. apply Hc.
    + apply has_prods_true. exists p. auto.
    + unfold has_nullable_alt. apply existsb_exists. exists p.
      split; [apply in_prods_of; auto|]. apply forallb_sym_in. apply IHr. reflexivity.
Qed.

Definition nullable_I (g : cfg) (vars nl : list N) : Prop :=
  NoDup nl /\ incl nl vars /\ forall x, In x nl -> nullable g x.

Lemma nullable_round_I g vars x x' c :
  nullable_I g vars x -> nullable_round g vars x = Some (x', c) -> nullable_I g vars x'.
Proof.
  intros (Hn & Hi & Hs) H. unfold nullable_round in H. inversion H; subst. unfold nullable_sweep.
  split; [apply cond_add_fold_NoDup; exact Hn|].
  split; [apply cond_add_fold_incl; [apply incl_refl|exact Hi]|].
  apply nullable_sweep_sound. exact Hs.
Qed.

Lemma nullable_seed_I g vars : nullable_I g vars (nullable_seed g vars).
Proof.
  unfold nullable_seed. split; [apply cond_add_fold_NoDup; constructor|].
  split; [apply cond_add_fold_incl; [apply incl_refl|intros x []]|].
  apply nullable_seed_sound.
Qed.

Theorem nullable_raw_exact g l :
  nullable_raw g = Some l -> forall a, In a l <-> nullable g a.
Proof.
  unfold nullable_raw. destruct (nt_ordering g) as [vars|] eqn:Ev; [|discriminate].
  intros H a.
  destruct (iter_until_inv (nullable_I g vars) (nullable_round g vars)
              (nullable_round_I g vars) _ _ _ (nullable_seed_I g vars) H)
    as (nl & (Hn & Hi & Hs) & Hstep).
  unfold nullable_round in Hstep. injection Hstep as Hl Hlen.
  apply Nat.ltb_ge in Hlen.
  assert (Hfix : nullable_sweep g vars nl = nl).
  { apply ext_same_length; [|exact Hlen]. apply fold_ext. apply cond_add_ext. }
  subst l. rewrite Hfix.
  split; [apply Hs|]. intros Ha.
  destruct (nullable_closed_complete g nl) with (α := [NT a]) (w := @nil N) (s := NT a)
    as (b & Hb & Hin); auto.
  - intros v Hv Hc. apply (cond_add_fold_fix _ vars nl Hfix v); [|exact Hc].
    apply (nt_ordering_In g vars Ev). apply has_prods_true in Hv as (p & Hp & <-).
    apply lhs_in_nts. exact Hp.
  - left. reflexivity.
  - inversion Hb; subst. exact Hin.
Qed.

(** The fuel [S (length vars)] chosen by the model always suffices: the only [None] is the
    Rust panic for a start symbol without productions. *)
Theorem nullable_raw_None g : nullable_raw g = None <-> prods_of g (start g) = [].
Proof.
  rewrite <- nt_ordering_None. unfold nullable_raw.
  destruct (nt_ordering g) as [vars|] eqn:Ev; [|tauto].
  split; [|discriminate]. intros H. exfalso.
  destruct (iter_until_terminates (nullable_I g vars) (@length N) (length vars)
              (nullable_round g vars) (nullable_round_I g vars)) with
      (fuel := S (length vars)) (x := nullable_seed g vars) as (y & Hy).
  - intros x (Hn & Hi & Hs). eexists _, _. split; [reflexivity|].
    intros Hc. apply Nat.ltb_lt in Hc. exact Hc.
  - intros x (Hn & Hi & _). apply NoDup_incl_length; assumption.
  - apply nullable_seed_I.
  - lia.
  - congruence.
Qed.

Theorem nullable_exact g l :
  nullable_nts g = Some l -> forall a, In a l <-> nullable g a.
Proof.
  unfold nullable_nts. destruct (nullable_raw g) as [r|] eqn:E; [|discriminate].
  intros H a. inversion H; subst. rewrite In_to_set. apply (nullable_raw_exact g r E).
Qed.

Theorem nullable_nts_None g : nullable_nts g = None <-> prods_of g (start g) = [].
Proof.
  rewrite <- nullable_raw_None. unfold nullable_nts.
  destruct (nullable_raw g); simpl; split; congruence.
Qed.

Lemma nullable_nts_sorted g l : nullable_nts g = Some l -> StronglySorted N.lt l.
Proof.
  unfold nullable_nts. destruct (nullable_raw g); [|discriminate].
  intros H. inversion H. apply to_set_sorted.
Qed.

(** ** Productive non-terminals: [non_productive_non_terminals]

    The Rust code builds, for the sorted vector [ns] of all non-terminals, one boolean
    "transfer function" per non-terminal and iterates all of them simultaneously (Jacobi
    style, each round reads only the previous vector) from the all-[false] vector until the
    vector does not change. *)

(** [non_terminal_index(nt)] ([position(..).unwrap()]) followed by [result_vector[index]]. *)
Fixpoint lookup (ns : list N) (rv : list bool) (a : N) : option bool :=
  match ns, rv with
  | n :: ns', b :: rv' => if N.eqb n a then Some b else lookup ns' rv' a
  | _, _ => None
  end.

(** [create_production_transfer_function]: short-cut conjunction, left to right, over the
    non-terminals of one right-hand side. *)
Fixpoint prod_tf (ns : list N) (rv : list bool) (r : list sym) : option bool :=
  match r with
  | [] => Some true
  | T _ :: r' => prod_tf ns rv r'
  | NT n :: r' =>
      match lookup ns rv n with
      | None => None
      | Some false => Some false
      | Some true => prod_tf ns rv r'
      end
  end.

(** Short-cut disjunction, left to right, over the alternatives. *)
Fixpoint alts_tf (ns : list N) (rv : list bool) (ps : list prod) : option bool :=
  match ps with
  | [] => Some false
  | p :: ps' =>
      match prod_tf ns rv (rhs p) with
      | None => None
      | Some true => Some true
      | Some false => alts_tf ns rv ps'
      end
  end.

Definition is_T (s : sym) : bool := match s with T _ => true | NT _ => false end.
Definition sym_known (ns : list N) (s : sym) : bool :=
  match s with NT n => mem n ns | T _ => true end.

(** [combine_production_equation], applied to the current vector.  The third test models the
    [unwrap] in [non_terminal_index], which the Rust code executes while it builds the closures
    of the general case. *)
Definition equation (g : cfg) (ns : list N) (rv : list bool) (a : N) : option bool :=
  let ps := prods_of g a in
  if is_nil ps then Some false
  else if existsb (fun p => forallb is_T (rhs p)) ps then Some true
  else if forallb (fun p => forallb (sym_known ns) (rhs p)) ps then alts_tf ns rv ps
  else None.

Fixpoint map_opt {A B} (f : A -> option B) (l : list A) : option (list B) :=
  match l with
  | [] => Some []
  | x :: l' =>
      match f x, map_opt f l' with
      | Some y, Some ys => Some (y :: ys)
      | _, _ => None
      end
  end.

Fixpoint bools_eqb (a b : list bool) : bool :=
  match a, b with
  | [], [] => true
  | x :: a', y :: b' => Bool.eqb x y && bools_eqb a' b'
  | _, _ => false
  end.

(** One application of [step_function] and the comparison [new_result_vector == result_vector]. *)
Definition prod_round (g : cfg) (ns : list N) (rv : list bool) : option (list bool * bool) :=
  match map_opt (equation g ns rv) ns with
  | None => None
  | Some rv' => Some (rv', negb (bools_eqb rv' rv))
  end.

Definition productive_vector (g : cfg) : option (list bool) :=
  let ns := nt_set g in
  iter_until (S (length ns)) (prod_round g ns) (map (fun _ => false) ns).

(** The non-terminals whose entry is [false], in the order of [ns]. *)
Definition unproductive_nts (g : cfg) : option (list N) :=
  match productive_vector g with
  | None => None
  | Some rv => Some (map fst (filter (fun nb => negb (snd nb)) (combine (nt_set g) rv)))
  end.

(** *** Proof: every vector that occurs is [map f ns] for a sound and expanding [f]. *)

Definition sym_val (f : N -> bool) (s : sym) : bool := match s with NT n => f n | T _ => true end.

Definition eqn_t (g : cfg) (f : N -> bool) (a : N) : bool :=
  existsb (fun p => forallb (sym_val f) (rhs p)) (prods_of g a).

Lemma lookup_map f ns a : In a ns -> lookup ns (map f ns) a = Some (f a).
Proof.
  induction ns as [|n ns IH]; intros H; [destruct H|]. simpl.
  destruct (N.eqb_spec n a) as [->|Hne]; [reflexivity|].
  destruct H as [H|H]; [congruence|apply IH; exact H].
Qed.

Lemma prod_tf_map f ns r :
  (forall n, In (NT n) r -> In n ns) -> prod_tf ns (map f ns) r = Some (forallb (sym_val f) r).
Proof.
  induction r as [|s r IH]; intros H; [reflexivity|].
  assert (Hr : forall n, In (NT n) r -> In n ns) by (intros n Hn; apply H; right; exact Hn).
  destruct s as [t|n]; simpl; [apply IH; exact Hr|].
  rewrite lookup_map by (apply H; left; reflexivity).
  destruct (f n); simpl; [apply IH; exact Hr|reflexivity].
Qed.

Lemma alts_tf_map f ns ps :
  (forall p n, In p ps -> In (NT n) (rhs p) -> In n ns) ->
  alts_tf ns (map f ns) ps = Some (existsb (fun p => forallb (sym_val f) (rhs p)) ps).
Proof.
  induction ps as [|p ps IH]; intros H; [reflexivity|]. simpl.
  rewrite prod_tf_map by (intros n Hn; apply (H p); [left; reflexivity|exact Hn]).
  destruct (forallb (sym_val f) (rhs p)); simpl; [reflexivity|].
  apply IH. intros q n Hq. apply H. right. exact Hq.
Qed.

Definition closed_ns (g : cfg) (ns : list N) : Prop :=
  forall p n, In p (prods g) -> In (NT n) (rhs p) -> In n ns.

Lemma nt_set_closed g : closed_ns g (nt_set g).
Proof. intros p n Hp Hn. apply In_nt_set. eapply rhs_in_nts; eauto. Qed.

Lemma equation_map g f ns a :
  closed_ns g ns -> equation g ns (map f ns) a = Some (eqn_t g f a).
Proof.
  intros Hc. unfold equation, eqn_t.
  destruct (prods_of g a) as [|p0 ps0] eqn:E; [reflexivity|]. rewrite <- E.
  replace (is_nil (prods_of g a)) with false by (rewrite E; reflexivity).
  destruct (existsb (fun p => forallb is_T (rhs p)) (prods_of g a)) eqn:Et.
  - f_equal. symmetry. apply existsb_exists in Et as (p & Hp & Ht).
    apply existsb_exists. exists p. split; [exact Hp|].
    rewrite forallb_forall in Ht |- *. intros s Hs. specialize (Ht s Hs).
    destruct s; [reflexivity|discriminate].
  - assert (Hk : forall p n, In p (prods_of g a) -> In (NT n) (rhs p) -> In n ns).
    { intros p n Hp. apply in_prods_of in Hp as [Hp _]. apply Hc. exact Hp. }
    replace (forallb (fun p => forallb (sym_known ns) (rhs p)) (prods_of g a)) with true.
    + apply alts_tf_map. exact Hk.
    + symmetry. apply forallb_forall. intros p Hp. apply forallb_forall. intros s Hs.
      destruct s as [t|n]; [reflexivity|]. simpl. apply mem_In. eapply Hk; eauto.
Qed.

Lemma map_opt_all {A B} (f : A -> option B) (h : A -> B) l :
  (forall x, In x l -> f x = Some (h x)) -> map_opt f l = Some (map h l).
Proof.
  induction l as [|x l IH]; intros H; [reflexivity|]. simpl.
  rewrite (H x (or_introl eq_refl)), IH; [reflexivity|]. intros y Hy. apply H. right. exact Hy.
Qed.

Lemma prod_round_map g f ns :
  closed_ns g ns ->
  prod_round g ns (map f ns) =
  Some (map (eqn_t g f) ns, negb (bools_eqb (map (eqn_t g f) ns) (map f ns))).
Proof.
  intros Hc. unfold prod_round.
  rewrite (map_opt_all _ (eqn_t g f)); [reflexivity|]. intros x _. apply equation_map. exact Hc.
Qed.

Lemma bools_eqb_eq a : forall b, bools_eqb a b = true <-> a = b.
Proof.
  induction a as [|x a IH]; intros [|y b]; simpl; split; intros H; try congruence; try discriminate.
  - apply andb_prop in H as [H1 H2]. apply eqb_prop in H1. apply IH in H2. congruence.
  - inversion H; subst. rewrite eqb_reflx. simpl. apply IH. reflexivity.
Qed.

Definition count_true (rv : list bool) : nat := length (filter (fun b => b) rv).

Lemma count_true_le_length rv : count_true rv <= length rv.
Proof.
  unfold count_true. induction rv as [|b rv IH]; simpl; [lia|]. destruct b; simpl; lia.
Qed.

Lemma count_true_mono (f f' : N -> bool) l :
  (forall n, f n = true -> f' n = true) ->
  count_true (map f l) <= count_true (map f' l) /\
  (bools_eqb (map f' l) (map f l) = false -> count_true (map f l) < count_true (map f' l)).
Proof.
  intros Hm. unfold count_true. induction l as [|a l [IH1 IH2]]; simpl; [split; [lia|discriminate]|].
  pose proof (Hm a) as Ha.
  destruct (f a) eqn:Ea, (f' a) eqn:Ea'; simpl; try (specialize (Ha eq_refl); discriminate);
    split; try lia; intros H; try lia; specialize (IH2 H); lia.
Qed.

Lemma eqn_t_mono g (f f' : N -> bool) a :
  (forall n, f n = true -> f' n = true) -> eqn_t g f a = true -> eqn_t g f' a = true.
Proof.
  intros Hm H. unfold eqn_t in *. apply existsb_exists in H as (p & Hp & H).
  apply existsb_exists. exists p. split; [exact Hp|].
  rewrite forallb_forall in H |- *. intros s Hs. specialize (H s Hs).
  destruct s as [t|n]; [reflexivity|]. simpl in *. apply Hm. exact H.
Qed.

Lemma eqn_t_true g f a :
  eqn_t g f a = true <->
  exists p, In p (prods g) /\ lhs p = a /\ forall b, In (NT b) (rhs p) -> f b = true.
Proof.
  unfold eqn_t. rewrite existsb_exists. split.
  - intros (p & Hp & H). apply in_prods_of in Hp as [Hp Hl]. exists p.
    split; [exact Hp|split; [exact Hl|]]. intros b Hb.
    rewrite forallb_forall in H. apply (H (NT b) Hb).
  - intros (p & Hp & Hl & H). exists p. split; [apply in_prods_of; auto|].
    apply forallb_forall. intros s Hs. destruct s as [t|n]; [reflexivity|]. apply H. exact Hs.
Qed.

Lemma eqn_t_sound g f a :
  (forall n, f n = true -> productive g n) -> eqn_t g f a = true -> productive g a.
Proof.
  intros Hs H. apply eqn_t_true in H as (p & Hp & Hl & H). apply productive_step.
  exists p. split; [exact Hp|split; [exact Hl|]]. intros b Hb. apply Hs. apply H. exact Hb.
Qed.

Definition prod_J (g : cfg) (ns : list N) (rv : list bool) : Prop :=
  exists f, rv = map f ns /\ (forall n, f n = true -> productive g n) /\
            (forall n, f n = true -> eqn_t g f n = true).

Lemma prod_round_J g ns x x' c :
  closed_ns g ns -> prod_J g ns x -> prod_round g ns x = Some (x', c) -> prod_J g ns x'.
Proof.
  intros Hc (f & -> & Hs & Hm) H. rewrite prod_round_map in H by exact Hc.
  inversion H; subst. exists (eqn_t g f). split; [reflexivity|]. split.
  - intros n. apply eqn_t_sound. exact Hs.
  - intros n. apply eqn_t_mono. exact Hm.
Qed.

Lemma prod_J_init g ns : prod_J g ns (map (fun _ => false) ns).
Proof. exists (fun _ => false). split; [reflexivity|]. split; intros n Hn; discriminate. Qed.

(** A fixpoint on [ns] contains every productive non-terminal of [ns]. *)
Lemma prod_fix_complete g ns f :
  closed_ns g ns -> (forall n, In n ns -> eqn_t g f n = true -> f n = true) ->
  forall α w, derives g α w -> forall b, In (NT b) α -> In b ns -> f b = true.
Proof.
  intros Hc Hf. induction 1 as [|t α w H IH|a p α u v Hin Hl Hr IHr Ha IHa]; intros b Hb Hbn.
  - destruct Hb.
  - destruct Hb as [Hb|Hb]; [discriminate|]. apply IH; assumption.
  - destruct Hb as [Hb|Hb]; [|apply IHa; assumption].
    inversion Hb; subst b. apply Hf; [exact Hbn|]. apply eqn_t_true. exists p.
    split; [exact Hin|split; [exact Hl|]]. intros n Hn. apply IHr; [exact Hn|].
    eapply Hc; eauto.
Qed.

Lemma In_combine_map (f : N -> bool) ns a b :
  In (a, b) (combine ns (map f ns)) <-> In a ns /\ b = f a.
Proof.
  induction ns as [|n ns IH]; simpl; [tauto|]. rewrite IH. split.
  - intros [H|H]; [inversion H; subst; auto|tauto].
  - intros [[->|H] ->]; auto.
Qed.

Lemma productive_vector_spec g rv :
  productive_vector g = Some rv ->
  exists f, rv = map f (nt_set g) /\
            forall a, In a (nt_set g) -> (f a = true <-> productive g a).
Proof.
  unfold productive_vector. intros H. pose proof (nt_set_closed g) as Hc.
  destruct (iter_until_inv (prod_J g (nt_set g)) (prod_round g (nt_set g))
              (fun x x' c => prod_round_J g (nt_set g) x x' c Hc) _ _ _
              (prod_J_init g (nt_set g)) H) as (rv0 & (f & -> & Hs & Hm) & Hstep).
  rewrite prod_round_map in Hstep by exact Hc. injection Hstep as Hrv Heq.
  apply negb_false_iff in Heq. apply bools_eqb_eq in Heq.
  exists f. split; [congruence|]. intros a Ha. split; [apply Hs|].
  intros (w & Hw). apply (prod_fix_complete g (nt_set g) f Hc) with (α := [NT a]) (w := w); auto.
  - intros n Hn He. rewrite <- He. symmetry.
    apply (proj1 (@map_ext_in_iff _ _ _ _ _) Heq n Hn).
  - left. reflexivity.
Qed.

Theorem productive_vector_total g : exists rv, productive_vector g = Some rv.
Proof.
  unfold productive_vector. pose proof (nt_set_closed g) as Hc.
  apply (iter_until_terminates (prod_J g (nt_set g)) count_true (length (nt_set g))
           (prod_round g (nt_set g)) (fun x x' c => prod_round_J g (nt_set g) x x' c Hc)).
  - intros x (f & -> & Hs & Hm). rewrite prod_round_map by exact Hc.
    eexists _, _. split; [reflexivity|]. intros Hne. apply negb_true_iff in Hne.
    apply (count_true_mono f (eqn_t g f)); assumption.
  - intros x (f & -> & _). rewrite <- (map_length f (nt_set g)). apply count_true_le_length.
  - apply prod_J_init.
  - lia.
Qed.

Theorem unproductive_total g : exists l, unproductive_nts g = Some l.
Proof.
  unfold unproductive_nts. destruct (productive_vector_total g) as (rv & ->). eauto.
Qed.

Theorem productive_exact g l :
  unproductive_nts g = Some l -> forall a, In a l <-> In a (nts g) /\ ~ productive g a.
Proof.
  unfold unproductive_nts. destruct (productive_vector g) as [rv|] eqn:E; [|discriminate].
  intros H a. injection H as <-.
  destruct (productive_vector_spec g rv E) as (f & -> & Hf).
  rewrite in_map_iff. rewrite <- In_nt_set. split.
  - intros ([a' b] & Ha & Hin). simpl in Ha. subst a'. apply filter_In in Hin as [Hin Hb].
    apply In_combine_map in Hin as [Hin ->]. simpl in Hb. apply negb_true_iff in Hb.
    split; [exact Hin|]. intros Hp. apply (Hf a Hin) in Hp. congruence.
  - intros [Hin Hnp]. exists (a, f a). split; [reflexivity|]. apply filter_In.
    split; [apply In_combine_map; auto|]. simpl. apply negb_true_iff.
    destruct (f a) eqn:Efa; [|reflexivity]. exfalso. apply Hnp. apply (Hf a Hin). exact Efa.
Qed.

(** ** Reachable non-terminals: [reachable_non_terminals], [unreachable_non_terminals] *)

Definition reach_sym (acc : list N) (s : sym) : list N :=
  match s with NT n => add n acc | T _ => acc end.

Definition reach_prod (acc : list N) (p : prod) : list N :=
  if mem (lhs p) acc then fold_left reach_sym (rhs p) acc else acc.

(** [insert_reachable]: one sweep over all productions, inserting in place. *)
Definition reach_sweep (ps : list prod) (r : list N) : list N := fold_left reach_prod ps r.

Definition reach_round (ps : list prod) (r : list N) : option (list N * bool) :=
  let r' := reach_sweep ps r in Some (r', length r <? length r').

Definition reachable_raw (g : cfg) : option (list N) :=
  iter_until (S (length (nts g))) (reach_round (prods g)) [start g].

Definition reachable_nts (g : cfg) : option (list N) := option_map to_set (reachable_raw g).

(** [get_non_terminal_set().difference(reachable)] *)
Definition unreachable_nts (g : cfg) : option (list N) :=
  match reachable_nts g with
  | None => None
  | Some r => Some (filter (fun a => negb (mem a r)) (nt_set g))
  end.

Lemma reach_sym_ext acc s : ext acc (reach_sym acc s).
Proof. destruct s; simpl; [apply ext_refl|apply ext_add]. Qed.

Lemma reach_prod_ext acc p : ext acc (reach_prod acc p).
Proof.
  unfold reach_prod. destruct (mem (lhs p) acc); [|apply ext_refl].
  apply fold_ext. apply reach_sym_ext.
Qed.

Definition reach_I (g : cfg) (r : list N) : Prop :=
  NoDup r /\ In (start g) r /\ forall x, In x r -> reachable g x.

Lemma reach_prod_I g r p : In p (prods g) -> reach_I g r -> reach_I g (reach_prod r p).
Proof.
  intros Hp HI. unfold reach_prod. destruct (mem (lhs p) r) eqn:E; [|exact HI].
  apply mem_In in E. assert (Hl : reachable g (lhs p)) by (apply HI; exact E). revert HI.
  apply (fold_inv reach_sym (reach_I g)).
  intros acc s Hs (Hn & Hst & Hs'). destruct s as [t|n]; simpl; [repeat split; assumption|].
  split; [apply NoDup_add; exact Hn|]. split; [apply In_add; right; exact Hst|].
  intros x Hx. apply In_add in Hx as [->|Hx]; [|apply Hs'; exact Hx].
  apply (reachable_step g (lhs p)); [exact Hl|]. exists p. auto.
Qed.

Lemma reach_round_I g x x' c :
  reach_I g x -> reach_round (prods g) x = Some (x', c) -> reach_I g x'.
Proof.
  intros HI H. unfold reach_round in H. injection H as <- _. unfold reach_sweep.
  revert HI. apply (fold_inv reach_prod (reach_I g)). intros acc p Hp. apply reach_prod_I. exact Hp.
Qed.

Lemma reach_I_init g : reach_I g [start g].
Proof.
  split; [constructor; [intros []|constructor]|]. split; [left; reflexivity|].
  intros x [<-|[]]. apply reachable_start.
Qed.

Lemma reach_fix_closed ps r :
  reach_sweep ps r = r ->
  forall p n, In p ps -> In (lhs p) r -> In (NT n) (rhs p) -> In n r.
Proof.
  intros H p n Hp Hl Hn.
  pose proof (fold_ext_fix reach_prod reach_prod_ext ps r H p Hp) as Hf.
  unfold reach_prod in Hf. apply mem_In in Hl. rewrite Hl in Hf.
  pose proof (fold_ext_fix reach_sym reach_sym_ext (rhs p) r Hf (NT n) Hn) as Hs.
  simpl in Hs. apply add_fix. exact Hs.
Qed.

Theorem reachable_raw_exact g l :
  reachable_raw g = Some l -> forall a, In a l <-> reachable g a.
Proof.
  unfold reachable_raw. intros H a.
  destruct (iter_until_inv (reach_I g) (reach_round (prods g)) (reach_round_I g) _ _ _
              (reach_I_init g) H) as (r & (Hn & Hst & Hs) & Hstep).
  unfold reach_round in Hstep. injection Hstep as Hl Hlen. apply Nat.ltb_ge in Hlen.
  assert (Hfix : reach_sweep (prods g) r = r).
  { apply ext_same_length; [|exact Hlen]. apply fold_ext. apply reach_prod_ext. }
  subst l. rewrite Hfix. split; [apply Hs|].
  intros Ha. induction Ha as [|b c _ IH (p & Hp & Hlp & Hc)] using reachable_ind'; [exact Hst|].
  subst b. apply (reach_fix_closed _ _ Hfix p c Hp IH Hc).
Qed.

Theorem reachable_raw_total g : exists l, reachable_raw g = Some l.
Proof.
  unfold reachable_raw.
  apply (iter_until_terminates (reach_I g) (@length N) (length (nts g))
           (reach_round (prods g)) (reach_round_I g)).
  - intros x _. eexists _, _. split; [reflexivity|]. intros Hc. apply Nat.ltb_lt in Hc. exact Hc.
  - intros x (Hn & _ & Hs). apply NoDup_incl_length; [exact Hn|].
    intros y Hy. apply reachable_in_nts. apply Hs. exact Hy.
  - apply reach_I_init.
  - lia.
Qed.

Theorem reachable_total g : exists l, reachable_nts g = Some l.
Proof. unfold reachable_nts. destruct (reachable_raw_total g) as (l & ->). simpl. eauto. Qed.

Theorem reachable_exact g l :
  reachable_nts g = Some l -> forall a, In a l <-> reachable g a.
Proof.
  unfold reachable_nts. destruct (reachable_raw g) as [r|] eqn:E; [|discriminate].
  intros H a. injection H as <-. rewrite In_to_set. apply (reachable_raw_exact g r E).
Qed.

Theorem unreachable_total g : exists l, unreachable_nts g = Some l.
Proof. unfold unreachable_nts. destruct (reachable_total g) as (l & ->). eauto. Qed.

Theorem unreachable_exact g l :
  unreachable_nts g = Some l -> forall a, In a l <-> In a (nts g) /\ ~ reachable g a.
Proof.
  unfold unreachable_nts. destruct (reachable_nts g) as [r|] eqn:E; [|discriminate].
  intros H a. injection H as <-. rewrite filter_In, In_nt_set, negb_true_iff, mem_false.
  rewrite (reachable_exact g r E a). tauto.
Qed.

(** ** Left-recursive non-terminals: [detect_left_recursive_non_terminals]

    The Rust [BTreeMap<String, HashSet<String>>] [can_start_with], whose key set is fixed
    ([get_non_terminal_set]), is modelled by the duplicate-free list of pairs [(key, member)].
    [can_start_with.get_mut(lhs).unwrap()] cannot fail as long as every left-hand side is a
    key; the model tests this up front and returns [None] otherwise (it never happens, see
    [left_recursive_None]). *)

Definition pair_eqb (p q : N * N) : bool := N.eqb (fst p) (fst q) && N.eqb (snd p) (snd q).
Definition memp (q : N * N) (rel : list (N * N)) : bool := existsb (pair_eqb q) rel.

Lemma memp_In q rel : memp q rel = true <-> In q rel.
Proof.
  unfold memp. rewrite existsb_exists. split.
  - intros (x & Hx & E). unfold pair_eqb in E. apply andb_prop in E as [E1 E2].
    apply N.eqb_eq in E1, E2. destruct q, x; simpl in *; subst. exact Hx.
  - intros H. exists q. split; [exact H|]. unfold pair_eqb. rewrite !N.eqb_refl. reflexivity.
Qed.

(** [HashSet::insert], returning whether the element was new. *)
Definition addp_flag (q : N * N) (rel : list (N * N)) : list (N * N) * bool :=
  if memp q rel then (rel, false) else (q :: rel, true).

Definition addp (q : N * N) (rel : list (N * N)) : list (N * N) := fst (addp_flag q rel).

(** The set stored under key [a]. *)
Definition succs (rel : list (N * N)) (a : N) : list N :=
  map snd (filter (fun q => N.eqb (fst q) a) rel).

Lemma In_addp x q rel : In x (addp q rel) <-> x = q \/ In x rel.
Proof.
  unfold addp, addp_flag. destruct (memp q rel) eqn:E; simpl; [|intuition congruence].
  apply memp_In in E. split; [auto|]. intros [->|H]; assumption.
Qed.

Lemma NoDup_addp q rel : NoDup rel -> NoDup (addp q rel).
Proof.
  intros H. unfold addp, addp_flag. destruct (memp q rel) eqn:E; simpl; [exact H|].
  constructor; [|exact H]. intros Hin. apply memp_In in Hin. congruence.
Qed.

Lemma addp_fix q rel : addp q rel = rel -> In q rel.
Proof.
  unfold addp, addp_flag. destruct (memp q rel) eqn:E; simpl; intros H; [apply memp_In; exact E|].
  apply (f_equal (@length _)) in H. simpl in H. lia.
Qed.

Lemma In_succs rel a x : In x (succs rel a) <-> In (a, x) rel.
Proof.
  unfold succs. rewrite in_map_iff. split.
  - intros ([a' x'] & Hx & Hin). simpl in Hx. subst x'. apply filter_In in Hin as [Hin E].
    simpl in E. apply N.eqb_eq in E. subst. exact Hin.
  - intros H. exists (a, x). split; [reflexivity|]. apply filter_In. split; [exact H|].
    simpl. apply N.eqb_refl.
Qed.

(** *** Steps that grow a list at the front and report whether they did *)

Definition grows {P} (f : list P -> list P * bool) : Prop :=
  forall rel, exists d, fst (f rel) = d ++ rel /\ snd (f rel) = negb (is_nil d).

Lemma grows_lt {P} (f : list P -> list P * bool) rel :
  grows f -> snd (f rel) = true -> length rel < length (fst (f rel)).
Proof.
  intros Hg Hc. destruct (Hg rel) as (d & -> & Hs). rewrite Hs in Hc.
  destruct d; [discriminate|]. simpl. rewrite app_length. lia.
Qed.

Lemma grows_fix {P} (f : list P -> list P * bool) rel :
  grows f -> snd (f rel) = false -> fst (f rel) = rel.
Proof.
  intros Hg Hc. destruct (Hg rel) as (d & -> & Hs). rewrite Hs in Hc.
  destruct d; [reflexivity|discriminate].
Qed.

(** [for x in xs { changed |= st(x) }] *)
Fixpoint fold_flag {X P} (st : X -> list P -> list P * bool) (xs : list X) (rel : list P)
  : list P * bool :=
  match xs with
  | [] => (rel, false)
  | x :: xs' =>
      let (r1, c1) := st x rel in
      let (r2, c2) := fold_flag st xs' r1 in (r2, c1 || c2)
  end.

Lemma fold_flag_grows {X P} (st : X -> list P -> list P * bool) xs :
  (forall x, grows (st x)) -> grows (fold_flag st xs).
Proof.
  intros Hg. induction xs as [|x xs IH]; intros rel; simpl.
  - exists []. auto.
  - destruct (Hg x rel) as (d1 & H1 & C1). destruct (st x rel) as [r1 c1]. simpl in *.
    destruct (IH r1) as (d2 & H2 & C2). destruct (fold_flag st xs r1) as [r2 c2]. simpl in *.
    subst. exists (d2 ++ d1). split; [apply app_assoc|].
    destruct d1, d2; reflexivity.
Qed.

Lemma fold_flag_inv {X P} (st : X -> list P -> list P * bool) (I : list P -> Prop) xs :
  (forall x rel, In x xs -> I rel -> I (fst (st x rel))) ->
  forall rel, I rel -> I (fst (fold_flag st xs rel)).
Proof.
  induction xs as [|x xs IH]; intros Hs rel Hr; simpl; [exact Hr|].
  pose proof (Hs x rel (or_introl eq_refl) Hr) as H1. destruct (st x rel) as [r1 c1]. simpl in H1.
  assert (H2 : I (fst (fold_flag st xs r1))).
  { apply IH; [|exact H1]. intros y r Hy. apply Hs. right. exact Hy. }
  destruct (fold_flag st xs r1) as [r2 c2]. exact H2.
Qed.

Lemma fold_flag_fix {X P} (st : X -> list P -> list P * bool) xs :
  (forall x, grows (st x)) -> forall rel, snd (fold_flag st xs rel) = false ->
  forall x, In x xs -> fst (st x rel) = rel.
Proof.
  intros Hg. induction xs as [|y xs IH]; intros rel Hc x Hx; [destruct Hx|].
  simpl in Hc. pose proof (grows_fix (st y) rel (Hg y)) as Hy.
  destruct (st y rel) as [r1 c1] eqn:E1. simpl in Hy.
  destruct (fold_flag st xs r1) as [r2 c2] eqn:E2. simpl in Hc.
  apply orb_false_iff in Hc as [-> ->]. specialize (Hy eq_refl). subst r1.
  destruct Hx as [<-|Hx]; [rewrite E1; reflexivity|].
  apply IH; [rewrite E2; reflexivity|exact Hx].
Qed.

Lemma fold_flag_In {X P} (st : X -> list P -> list P * bool) (Q : X -> P -> Prop) :
  (forall x rel q, In q (fst (st x rel)) <-> In q rel \/ Q x q) ->
  forall xs rel q, In q (fst (fold_flag st xs rel)) <-> In q rel \/ exists x, In x xs /\ Q x q.
Proof.
  intros Hs xs. induction xs as [|x xs IH]; intros rel q; simpl.
  - split; [auto|]. intros [H|(x & [] & _)]. exact H.
  - specialize (Hs x rel q). destruct (st x rel) as [r1 c1]. simpl in Hs.
    specialize (IH r1 q). destruct (fold_flag st xs r1) as [r2 c2]. simpl in *.
    rewrite IH, Hs. split.
    + intros [[H|H]|(y & Hy & H)]; eauto.
    + intros [H|(y & [<-|Hy] & H)]; eauto.
Qed.

(** *** Phase 1: the relation "A can start with B" *)

(** The loop over the symbols of one production: insert every non-terminal up to and including
    the first one that is not nullable; stop at a terminal. *)
Fixpoint csw_prod (nl : list N) (a : N) (r : list sym) (rel : list (N * N))
  : list (N * N) * bool :=
  match r with
  | NT n :: r' =>
      let (rel1, c1) := addp_flag (a, n) rel in
      if mem n nl
      then let (rel2, c2) := csw_prod nl a r' rel1 in (rel2, c1 || c2)
      else (rel1, c1)
  | _ => (rel, false)
  end.

Definition csw_sweep (g : cfg) (nl : list N) (rel : list (N * N)) : list (N * N) * bool :=
  fold_flag (fun p => csw_prod nl (lhs p) (rhs p)) (prods g) rel.

(** The non-terminals of [r] that are preceded by nullable non-terminals only. *)
Fixpoint heads (nl : list N) (r : list sym) : list N :=
  match r with
  | NT n :: r' => n :: (if mem n nl then heads nl r' else [])
  | _ => []
  end.

Lemma In_heads nl r y :
  In y (heads nl r) <->
  exists α β, r = α ++ NT y :: β /\ forall s, In s α -> exists b, s = NT b /\ In b nl.
Proof.
  split.
  - induction r as [|s r IH]; simpl; [intros []|]. destruct s as [t|n]; [intros []|].
    intros [->|H].
    + exists [], r. split; [reflexivity|intros s []].
    + destruct (mem n nl) eqn:E; [|destruct H]. apply mem_In in E.
      destruct (IH H) as (α & β & -> & Hα). exists (NT n :: α), β. split; [reflexivity|].
      intros s [<-|Hs]; [eauto|apply Hα; exact Hs].
  - intros (α & β & -> & Hα). induction α as [|s α IH]; simpl; [left; reflexivity|].
    destruct (Hα s (or_introl eq_refl)) as (b & -> & Hb). right.
    apply mem_In in Hb. rewrite Hb. apply IH. intros s Hs. apply Hα. right. exact Hs.
Qed.

Lemma addp_flag_grows q : grows (addp_flag q).
Proof.
  intros rel. unfold addp_flag. destruct (memp q rel); [exists []|exists [q]]; auto.
Qed.

Lemma csw_prod_grows nl a r : grows (csw_prod nl a r).
Proof.
  induction r as [|s r IH]; intros rel; simpl; [exists []; auto|].
  destruct s as [t|n]; [exists []; auto|].
  destruct (addp_flag_grows (a, n) rel) as (d1 & H1 & C1).
  destruct (addp_flag (a, n) rel) as [r1 c1]. simpl in *.
  destruct (mem n nl); [|exists d1; auto].
  destruct (IH r1) as (d2 & H2 & C2). destruct (csw_prod nl a r r1) as [r2 c2]. simpl in *.
  subst. exists (d2 ++ d1). split; [apply app_assoc|]. destruct d1, d2; reflexivity.
Qed.

Lemma csw_prod_In nl a r : forall rel q,
  In q (fst (csw_prod nl a r rel)) <-> In q rel \/ (fst q = a /\ In (snd q) (heads nl r)).
Proof.
  induction r as [|s r IH]; intros rel q; simpl; [tauto|].
  destruct s as [t|n]; simpl; [tauto|].
  pose proof (In_addp q (a, n) rel) as Ha. unfold addp in Ha.
  destruct (addp_flag (a, n) rel) as [r1 c1]. simpl in Ha.
  destruct (mem n nl).
  - specialize (IH r1 q). destruct (csw_prod nl a r r1) as [r2 c2]. simpl in *.
    rewrite IH, Ha. destruct q as [x y]. simpl. split.
    + intros [[H|H]|[H1 H2]]; [inversion H; subst|..]; auto.
    + intros [H|[H1 [H2|H2]]]; subst; auto.
  - simpl. rewrite Ha. destruct q as [x y]. simpl. split.
    + intros [H|H]; [inversion H; subst|]; auto.
    + intros [H|[H1 [H2|[]]]]; subst; auto.
Qed.

Lemma csw_prod_NoDup nl a r : forall rel, NoDup rel -> NoDup (fst (csw_prod nl a r rel)).
Proof.
  induction r as [|s r IH]; intros rel Hn; simpl; [exact Hn|].
  destruct s as [t|n]; [exact Hn|].
  pose proof (NoDup_addp (a, n) rel Hn) as Ha. unfold addp in Ha.
  destruct (addp_flag (a, n) rel) as [r1 c1]. simpl in Ha.
  destruct (mem n nl); [|exact Ha].
  specialize (IH r1 Ha). destruct (csw_prod nl a r r1) as [r2 c2]. exact IH.
Qed.

Lemma csw_sweep_In g nl rel a b :
  (forall n, In n nl <-> nullable g n) ->
  In (a, b) (fst (csw_sweep g nl rel)) <-> In (a, b) rel \/ left_step g a b.
Proof.
  intros Hnl. unfold csw_sweep.
  rewrite (fold_flag_In (fun p => csw_prod nl (lhs p) (rhs p))
             (fun p q => fst q = lhs p /\ In (snd q) (heads nl (rhs p))))
    by (intros p r q; apply csw_prod_In).
  simpl. apply or_iff_compat_l. split.
  - intros (p & Hp & Hl & Hh). apply In_heads in Hh as (α & β & Hr & Hα).
    exists p, α, β. repeat split; auto. intros s Hs. destruct (Hα s Hs) as (n & -> & Hn).
    exists n. split; [reflexivity|apply Hnl; exact Hn].
  - intros (p & α & β & Hp & Hl & Hr & Hα). exists p. repeat split; auto.
    apply In_heads. exists α, β. split; [exact Hr|]. intros s Hs.
    destruct (Hα s Hs) as (n & -> & Hn). exists n. split; [reflexivity|apply Hnl; exact Hn].
Qed.

Lemma csw_sweep_grows g nl : grows (csw_sweep g nl).
Proof. apply fold_flag_grows. intros p. apply csw_prod_grows. Qed.

Lemma csw_sweep_NoDup g nl rel : NoDup rel -> NoDup (fst (csw_sweep g nl rel)).
Proof.
  apply (fold_flag_inv (fun p => csw_prod nl (lhs p) (rhs p)) (@NoDup _)).
  intros p r _. apply csw_prod_NoDup.
Qed.

(** *** Phase 2: transitive closure *)

(** The body of [for nt in keys]: [v] is a snapshot of the set of [nt]; for every [e] in [v] the
    current set of [e] is added to the set of [nt]; the flag compares sizes before and after. *)
Definition close_inner (nt : N) (r : list (N * N)) (e : N) : list (N * N) :=
  fold_left (fun r' x => addp (nt, x) r') (succs r e) r.

Definition close_nt (nt : N) (rel : list (N * N)) : list (N * N) * bool :=
  let v := succs rel nt in
  let rel' := fold_left (close_inner nt) v rel in
  (rel', length v <? length (succs rel' nt)).

Definition close_sweep (keys : list N) (rel : list (N * N)) : list (N * N) * bool :=
  fold_flag close_nt keys rel.

Definition extP {A} (P : A -> Prop) (l l' : list A) : Prop :=
  exists d, l' = d ++ l /\ Forall P d.

Lemma extP_refl {A} (P : A -> Prop) l : extP P l l.
Proof. exists []. auto. Qed.

Lemma extP_trans {A} (P : A -> Prop) l1 l2 l3 : extP P l1 l2 -> extP P l2 l3 -> extP P l1 l3.
Proof.
  intros (d1 & -> & H1) (d2 & -> & H2). exists (d2 ++ d1). split; [apply app_assoc|].
  apply Forall_app. auto.
Qed.

Lemma extP_ext {A} (P : A -> Prop) l l' : extP P l l' -> ext l l'.
Proof. intros (d & -> & _). exists d. reflexivity. Qed.

Lemma fold_extP {A X} (P : A -> Prop) (f : list A -> X -> list A) :
  (forall acc x, extP P acc (f acc x)) -> forall xs r, extP P r (fold_left f xs r).
Proof.
  intros Hf xs. induction xs as [|x xs IH]; intros r; simpl; [apply extP_refl|].
  eapply extP_trans; [apply Hf|apply IH].
Qed.

Lemma addp_extP nt x r : extP (fun q : N * N => fst q = nt) r (addp (nt, x) r).
Proof.
  unfold addp, addp_flag. destruct (memp (nt, x) r); simpl; [apply extP_refl|].
  exists [(nt, x)]. split; [reflexivity|]. constructor; [reflexivity|constructor].
Qed.

Lemma close_inner_extP nt r e : extP (fun q : N * N => fst q = nt) r (close_inner nt r e).
Proof. unfold close_inner. apply fold_extP. intros acc x. apply addp_extP. Qed.

Lemma succs_own_length d nt :
  Forall (fun q : N * N => fst q = nt) d -> length (succs d nt) = length d.
Proof.
  unfold succs. induction 1 as [|q d Hq _ IH]; [reflexivity|]. simpl.
  rewrite Hq, N.eqb_refl. simpl. rewrite IH. reflexivity.
Qed.

Lemma succs_app d rel a : succs (d ++ rel) a = succs d a ++ succs rel a.
Proof. unfold succs. rewrite filter_app, map_app. reflexivity. Qed.

Lemma close_nt_grows nt : grows (close_nt nt).
Proof.
  intros rel. unfold close_nt. simpl.
  destruct (fold_extP (fun q : N * N => fst q = nt) (close_inner nt) (close_inner_extP nt)
              (succs rel nt) rel) as (d & Hd & Hf).
  exists d. split; [exact Hd|]. rewrite Hd, succs_app, app_length, (succs_own_length d nt Hf).
  destruct d; simpl.
  - apply Nat.ltb_irrefl.
  - apply Nat.ltb_lt. lia.
Qed.

Lemma close_sweep_grows keys : grows (close_sweep keys).
Proof. apply fold_flag_grows. apply close_nt_grows. Qed.

Definition tc_I (g : cfg) (rel : list (N * N)) : Prop :=
  NoDup rel /\ (forall a b, left_step g a b -> In (a, b) rel) /\
  (forall a b, In (a, b) rel -> clos_trans N (left_step g) a b).

Lemma close_nt_I g nt rel : tc_I g rel -> tc_I g (fst (close_nt nt rel)).
Proof.
  intros (Hn & Hc & Hs). unfold close_nt. simpl.
  set (K := fun r : list (N * N) => incl rel r /\ NoDup r /\
                 forall a b, In (a, b) r -> clos_trans N (left_step g) a b).
  assert (HK : K (fold_left (close_inner nt) (succs rel nt) rel)).
  { apply (fold_inv (close_inner nt) K).
    - intros r e He Hr. apply In_succs in He. unfold close_inner.
      apply (fold_inv (fun r' x => addp (nt, x) r') K); [|exact Hr].
      intros r' x Hx (Hi' & Hn' & Hs'). apply In_succs in Hx.
      split; [intros q Hq; apply In_addp; right; apply Hi'; exact Hq|].
      split; [apply NoDup_addp; exact Hn'|].
      intros a b Hab. apply In_addp in Hab as [Hab|Hab]; [|apply Hs'; exact Hab].
      inversion Hab; subst. destruct Hr as (_ & _ & Hsr).
      eapply t_trans; [apply Hs; exact He|apply Hsr; exact Hx].
    - split; [apply incl_refl|]. split; assumption. }
  destruct HK as (Hi' & Hn' & Hs'). split; [exact Hn'|]. split; [|exact Hs'].
  intros a b Hab. apply Hi'. apply Hc. exact Hab.
Qed.

Lemma close_sweep_I g keys rel : tc_I g rel -> tc_I g (fst (close_sweep keys rel)).
Proof. apply (fold_flag_inv close_nt (tc_I g)). intros nt r _. apply close_nt_I. Qed.

Lemma close_nt_fix nt rel :
  fst (close_nt nt rel) = rel -> forall e x, In (nt, e) rel -> In (e, x) rel -> In (nt, x) rel.
Proof.
  unfold close_nt. simpl. intros H e x He Hx.
  assert (Hext : forall acc y, ext acc (close_inner nt acc y)).
  { intros acc y. eapply extP_ext. apply close_inner_extP. }
  pose proof (fold_ext_fix (close_inner nt) Hext (succs rel nt) rel H e
                (proj2 (In_succs rel nt e) He)) as H1.
  unfold close_inner in H1.
  assert (Hext' : forall acc y, ext acc (addp (nt, y) acc)).
  { intros acc y. eapply extP_ext. apply addp_extP. }
  pose proof (fold_ext_fix (fun r' y => addp (nt, y) r') Hext' (succs rel e) rel H1 x
                (proj2 (In_succs rel e x) Hx)) as H2.
  apply addp_fix. exact H2.
Qed.

(** *** The complete function *)

Definition csw_round (g : cfg) (nl : list N) (rel : list (N * N))
  : option (list (N * N) * bool) := Some (csw_sweep g nl rel).

Definition close_round (keys : list N) (rel : list (N * N))
  : option (list (N * N) * bool) := Some (close_sweep keys rel).

Definition left_recursive_nts (g : cfg) : option (list N) :=
  match nullable_nts g with
  | None => None
  | Some nl =>
      let keys := nt_set g in
      let fuel := S (length keys * length keys) in
      if forallb (fun p => mem (lhs p) keys) (prods g) then
        match iter_until fuel (csw_round g nl) [] with
        | None => None
        | Some rel1 =>
            match iter_until fuel (close_round keys) rel1 with
            | None => None
            | Some rel2 => Some (filter (fun k => memp (k, k) rel2) keys)
            end
        end
      else None
  end.

Lemma rel_bound (keys : list N) (rel : list (N * N)) :
  NoDup rel -> (forall a b, In (a, b) rel -> In a keys /\ In b keys) ->
  length rel <= length keys * length keys.
Proof.
  intros Hn Hi. rewrite <- prod_length. apply NoDup_incl_length; [exact Hn|].
  intros [a b] Hab. apply in_prod_iff. apply Hi. exact Hab.
Qed.

Definition csw_I (g : cfg) (rel : list (N * N)) : Prop :=
  NoDup rel /\ forall a b, In (a, b) rel -> left_step g a b.

Lemma csw_round_I g nl x x' c :
  (forall n, In n nl <-> nullable g n) ->
  csw_I g x -> csw_round g nl x = Some (x', c) -> csw_I g x'.
Proof.
  intros Hnl (Hn & Hs) H. unfold csw_round in H. injection H as H.
  assert (Hx' : x' = fst (csw_sweep g nl x)) by (rewrite H; reflexivity). subst x'.
  split; [apply csw_sweep_NoDup; exact Hn|].
  intros a b Hab. apply (csw_sweep_In g nl x a b Hnl) in Hab as [Hab|Hab]; auto.
Qed.

Lemma close_round_I g keys x x' c :
  tc_I g x -> close_round keys x = Some (x', c) -> tc_I g x'.
Proof.
  intros HI H. unfold close_round in H. injection H as H.
  assert (Hx' : x' = fst (close_sweep keys x)) by (rewrite H; reflexivity). subst x'.
  apply close_sweep_I. exact HI.
Qed.

Lemma left_keys_ok g : forallb (fun p => mem (lhs p) (nt_set g)) (prods g) = true.
Proof.
  apply forallb_forall. intros p Hp. apply mem_In. apply In_nt_set. apply lhs_in_nts. exact Hp.
Qed.

Lemma csw_loop_total g nl :
  (forall n, In n nl <-> nullable g n) ->
  exists rel, iter_until (S (length (nt_set g) * length (nt_set g))) (csw_round g nl) [] = Some rel.
Proof.
  intros Hnl.
  apply (iter_until_terminates (csw_I g) (@length _) (length (nt_set g) * length (nt_set g))
           (csw_round g nl) (fun x x' c => csw_round_I g nl x x' c Hnl)).
  - intros x _. unfold csw_round. destruct (csw_sweep g nl x) as [x' c] eqn:E.
    exists x', c. split; [reflexivity|]. intros ->.
    pose proof (grows_lt (csw_sweep g nl) x (csw_sweep_grows g nl)) as Hlt.
    rewrite E in Hlt. apply Hlt. reflexivity.
  - intros x (Hn & Hs). apply rel_bound; [exact Hn|]. intros a b Hab.
    rewrite !In_nt_set. eapply left_step_in_nts. apply Hs. exact Hab.
  - split; [constructor|intros a b []].
  - lia.
Qed.

Lemma close_loop_total g rel :
  tc_I g rel ->
  exists rel', iter_until (S (length (nt_set g) * length (nt_set g)))
                 (close_round (nt_set g)) rel = Some rel'.
Proof.
  intros HI.
  apply (iter_until_terminates (tc_I g) (@length _) (length (nt_set g) * length (nt_set g))
           (close_round (nt_set g)) (close_round_I g (nt_set g))).
  - intros x _. unfold close_round. destruct (close_sweep (nt_set g) x) as [x' c] eqn:E.
    exists x', c. split; [reflexivity|]. intros ->.
    pose proof (grows_lt (close_sweep (nt_set g)) x (close_sweep_grows _)) as Hlt.
    rewrite E in Hlt. apply Hlt. reflexivity.
  - intros x (Hn & _ & Hs). apply rel_bound; [exact Hn|]. intros a b Hab.
    rewrite !In_nt_set. eapply left_trans_in_nts. apply Hs. exact Hab.
  - exact HI.
  - lia.
Qed.

Lemma csw_loop_exact g nl fuel rel :
  (forall n, In n nl <-> nullable g n) ->
  iter_until fuel (csw_round g nl) [] = Some rel ->
  NoDup rel /\ forall a b, In (a, b) rel <-> left_step g a b.
Proof.
  intros Hnl H.
  destruct (iter_until_inv (csw_I g) (csw_round g nl)
              (fun x x' c => csw_round_I g nl x x' c Hnl) fuel [] rel) as (x0 & HI0 & Hstep);
    [split; [constructor|intros a b []]|exact H|].
  pose proof (csw_round_I g nl x0 rel false Hnl HI0 Hstep) as (Hn & Hs).
  split; [exact Hn|]. intros a b. split; [apply Hs|]. intros Hab.
  unfold csw_round in Hstep. injection Hstep as Hstep.
  assert (Hrel : rel = fst (csw_sweep g nl x0)) by (rewrite Hstep; reflexivity). subst rel.
  apply (csw_sweep_In g nl x0 a b Hnl). right. exact Hab.
Qed.

Lemma close_loop_exact g fuel rel rel' :
  tc_I g rel -> iter_until fuel (close_round (nt_set g)) rel = Some rel' ->
  forall a b, In (a, b) rel' <-> clos_trans N (left_step g) a b.
Proof.
  intros HI H.
  destruct (iter_until_inv (tc_I g) (close_round (nt_set g)) (close_round_I g (nt_set g))
              fuel rel rel' HI H) as (x0 & HI0 & Hstep).
  unfold close_round in Hstep. injection Hstep as Hstep.
  assert (Hfix : fst (close_sweep (nt_set g) x0) = x0).
  { apply grows_fix; [apply close_sweep_grows|]. rewrite Hstep. reflexivity. }
  assert (Hrel : rel' = x0) by (rewrite <- Hfix, Hstep; reflexivity). subst x0.
  destruct HI0 as (Hn & Hc & Hs).
  assert (Hclosed : forall a e x, In (a, e) rel' -> In (e, x) rel' -> In (a, x) rel').
  { intros a e x Hae Hex. refine (close_nt_fix a rel' _ e x Hae Hex).
    apply (fold_flag_fix close_nt (nt_set g) close_nt_grows rel').
    - unfold close_sweep in Hstep. rewrite Hstep. reflexivity.
    - apply In_nt_set. apply (proj1 (left_trans_in_nts g a e (Hs _ _ Hae))). }
  intros a b. split; [apply Hs|].
  induction 1 as [a b Hab|a e b _ IH1 _ IH2]; [apply Hc; exact Hab|].
  eapply Hclosed; eauto.
Qed.

Theorem leftrec_exact g l :
  left_recursive_nts g = Some l -> forall a, In a l <-> left_rec g a.
Proof.
  unfold left_recursive_nts. destruct (nullable_nts g) as [nl|] eqn:En; [|discriminate].
  pose proof (nullable_exact g nl En) as Hnl. rewrite left_keys_ok.
  destruct (iter_until _ (csw_round g nl) []) as [rel1|] eqn:E1; [|discriminate].
  destruct (iter_until _ (close_round (nt_set g)) rel1) as [rel2|] eqn:E2; [|discriminate].
  intros H a. injection H as <-.
  destruct (csw_loop_exact g nl _ rel1 Hnl E1) as (Hn1 & Hrel1).
  assert (HI : tc_I g rel1).
  { split; [exact Hn1|]. split; [intros x y Hxy; apply Hrel1; exact Hxy|].
    intros x y Hxy. apply t_step. apply Hrel1. exact Hxy. }
  pose proof (close_loop_exact g _ rel1 rel2 HI E2) as Hrel2.
  rewrite filter_In, memp_In, Hrel2, In_nt_set. unfold left_rec. split; [tauto|].
  intros H. split; [apply (left_rec_in_nts g a H)|exact H].
Qed.

(** The only [None] is the panic inherited from [calculate_nullable_non_terminals]. *)
Theorem left_recursive_None g : left_recursive_nts g = None <-> prods_of g (start g) = [].
Proof.
  rewrite <- nullable_nts_None. unfold left_recursive_nts.
  destruct (nullable_nts g) as [nl|] eqn:En; [|tauto]. split; [|discriminate].
  intros H. exfalso. pose proof (nullable_exact g nl En) as Hnl. rewrite left_keys_ok in H.
  destruct (csw_loop_total g nl Hnl) as (rel1 & E1). rewrite E1 in H.
  destruct (csw_loop_exact g nl _ rel1 Hnl E1) as (Hn1 & Hrel1).
  assert (HI : tc_I g rel1).
  { split; [exact Hn1|]. split; [intros x y Hxy; apply Hrel1; exact Hxy|].
    intros x y Hxy. apply t_step. apply Hrel1. exact Hxy. }
  destruct (close_loop_total g rel1 HI) as (rel2 & E2). rewrite E2 in H. discriminate.
Qed.

(** ** The decision of [check_and_transform_grammar]

    Order of the checks in the Rust code: non-productive non-terminals first, then unreachable
    ones ([check_and_transform_grammar] passes an empty ignore set), then — for [GrammarType::LLK]
    only — left recursion.  On success the LL branch goes on to left factoring, the LALR(1) branch
    to augmentation; both are outside this property.  The payloads are the lists of names in
    the order of the underlying sorted collections. *)

Inductive check_result :=
| Ok
| NonProductive (l : list N)
| Unreachable (l : list N)
| LeftRecursive (l : list N)
| ModelError.   (* fuel exhausted or Rust panic; impossible, see [check_decision_exact] *)

Definition check_decision (is_ll : bool) (g : cfg) : check_result :=
  match unproductive_nts g with
  | None => ModelError
  | Some (a :: l) => NonProductive (a :: l)
  | Some [] =>
      match unreachable_nts g with
      | None => ModelError
      | Some (a :: l) => Unreachable (a :: l)
      | Some [] =>
          if is_ll then
            match left_recursive_nts g with
            | None => ModelError
            | Some (a :: l) => LeftRecursive (a :: l)
            | Some [] => Ok
            end
          else Ok
      end
  end.

Definition unproductive_nt (g : cfg) (a : N) : Prop := In a (nts g) /\ ~ productive g a.
Definition unreachable_nt (g : cfg) (a : N) : Prop := In a (nts g) /\ ~ reachable g a.

Theorem check_decision_exact is_ll g :
  match check_decision is_ll g with
  | NonProductive l =>
      l <> [] /\ (forall a, In a l <-> unproductive_nt g a)
  | Unreachable l =>
      (forall a, ~ unproductive_nt g a) /\
      l <> [] /\ (forall a, In a l <-> unreachable_nt g a)
  | LeftRecursive l =>
      is_ll = true /\ (forall a, ~ unproductive_nt g a) /\ (forall a, ~ unreachable_nt g a) /\
      l <> [] /\ (forall a, In a l <-> left_rec g a)
  | Ok =>
      (forall a, ~ unproductive_nt g a) /\ (forall a, ~ unreachable_nt g a) /\
      (is_ll = true -> forall a, ~ left_rec g a)
  | ModelError => False
  end.
Proof.
  unfold check_decision.
  destruct (unproductive_total g) as (lu & Eu). rewrite Eu.
  pose proof (productive_exact g lu Eu) as Hu.
  destruct lu as [|a0 lu]; [|split; [discriminate|exact Hu]].
  assert (HU : forall a, ~ unproductive_nt g a) by (intros a Ha; apply (Hu a); exact Ha).
  destruct (unreachable_total g) as (lr & Er). rewrite Er.
  pose proof (unreachable_exact g lr Er) as Hr.
  destruct lr as [|a1 lr]; [|split; [exact HU|split; [discriminate|exact Hr]]].
  assert (HR : forall a, ~ unreachable_nt g a) by (intros a Ha; apply (Hr a); exact Ha).
  destruct is_ll; [|split; [exact HU|split; [exact HR|discriminate]]].
  destruct (left_recursive_nts g) as [ll|] eqn:El.
  - pose proof (leftrec_exact g ll El) as Hl.
    destruct ll as [|a2 ll].
    + split; [exact HU|split; [exact HR|]]. intros _ a Ha. apply (Hl a). exact Ha.
    + split; [reflexivity|]. split; [exact HU|]. split; [exact HR|]. split; [discriminate|exact Hl].
  - apply left_recursive_None in El. apply (HU (start g)).
    split; [apply start_in_nts|apply no_prods_unproductive; exact El].
Qed.

Corollary check_decision_no_error is_ll g : check_decision is_ll g <> ModelError.
Proof.
  pose proof (check_decision_exact is_ll g) as H. intros E. rewrite E in H. exact H.
Qed.

Lemma nonempty_ex (l : list N) : l <> [] -> exists a, In a l.
Proof. destruct l as [|a l]; [congruence|]. intros _. exists a. left. reflexivity. Qed.

Corollary check_nonproductive_iff is_ll g :
  (exists l, check_decision is_ll g = NonProductive l) <-> (exists a, unproductive_nt g a).
Proof.
  pose proof (check_decision_exact is_ll g) as H. split.
  - intros (l & E). rewrite E in H. destruct H as (Hne & Hl).
    destruct (nonempty_ex l Hne) as (a & Ha). exists a. apply Hl. exact Ha.
  - intros (a & Ha). destruct (check_decision is_ll g) as [|l|l|l|]; try (exfalso; tauto);
      try (exfalso; apply (proj1 H a Ha)); try (exfalso; apply (proj1 (proj2 H) a Ha)); eauto.
Qed.

Corollary check_unreachable_iff is_ll g :
  (exists l, check_decision is_ll g = Unreachable l) <->
  (forall a, ~ unproductive_nt g a) /\ (exists a, unreachable_nt g a).
Proof.
  pose proof (check_decision_exact is_ll g) as H. split.
  - intros (l & E). rewrite E in H. destruct H as (HU & Hne & Hl). split; [exact HU|].
    destruct (nonempty_ex l Hne) as (a & Ha). exists a. apply Hl. exact Ha.
  - intros (HU & a & Ha). destruct (check_decision is_ll g) as [|l|l|l|]; eauto; exfalso.
    + apply (proj1 (proj2 H) a Ha).
    + destruct H as (Hne & Hl). destruct (nonempty_ex l Hne) as (b & Hb).
      apply (HU b). apply Hl. exact Hb.
    + apply (proj1 (proj2 (proj2 H)) a Ha).
    + exact H.
Qed.

Corollary check_leftrec_iff is_ll g :
  (exists l, check_decision is_ll g = LeftRecursive l) <->
  is_ll = true /\ (forall a, ~ unproductive_nt g a) /\ (forall a, ~ unreachable_nt g a) /\
  (exists a, left_rec g a).
Proof.
  pose proof (check_decision_exact is_ll g) as H. split.
  - intros (l & E). rewrite E in H. destruct H as (Hll & HU & HR & Hne & Hl).
    repeat split; auto. destruct (nonempty_ex l Hne) as (a & Ha). exists a. apply Hl. exact Ha.
  - intros (Hll & HU & HR & a & Ha).
    destruct (check_decision is_ll g) as [|l|l|l|]; eauto; exfalso.
    + apply (proj2 (proj2 H) Hll a Ha).
    + destruct H as (Hne & Hl). destruct (nonempty_ex l Hne) as (b & Hb).
      apply (HU b). apply Hl. exact Hb.
    + destruct H as (_ & Hne & Hl). destruct (nonempty_ex l Hne) as (b & Hb).
      apply (HR b). apply Hl. exact Hb.
    + exact H.
Qed.

Corollary check_ok_iff is_ll g :
  check_decision is_ll g = Ok <->
  (forall a, ~ unproductive_nt g a) /\ (forall a, ~ unreachable_nt g a) /\
  (is_ll = true -> forall a, ~ left_rec g a).
Proof.
  pose proof (check_decision_exact is_ll g) as H. split.
  - intros E. rewrite E in H. exact H.
  - intros (HU & HR & HL). destruct (check_decision is_ll g) as [|l|l|l|]; auto; exfalso.
    + destruct H as (Hne & Hl). destruct (nonempty_ex l Hne) as (b & Hb).
      apply (HU b). apply Hl. exact Hb.
    + destruct H as (_ & Hne & Hl). destruct (nonempty_ex l Hne) as (b & Hb).
      apply (HR b). apply Hl. exact Hb.
    + destruct H as (Hll & _ & _ & Hne & Hl). destruct (nonempty_ex l Hne) as (b & Hb).
      apply (HL Hll b). apply Hl. exact Hb.
    + exact H.
Qed.

(** The payloads are strictly ascending (the Rust collections are sorted by name). *)
Lemma filter_sorted (f : N -> bool) l : StronglySorted N.lt l -> StronglySorted N.lt (filter f l).
Proof.
  induction 1 as [|a l _ IH Hf]; simpl; [constructor|]. destruct (f a); [|exact IH].
  constructor; [exact IH|]. apply Forall_forall. intros x Hx. apply filter_In in Hx as [Hx _].
  rewrite Forall_forall in Hf. apply Hf. exact Hx.
Qed.

Lemma unproductive_as_filter (f : N -> bool) ns :
  map fst (filter (fun nb : N * bool => negb (snd nb)) (combine ns (map f ns))) =
  filter (fun a => negb (f a)) ns.
Proof.
  induction ns as [|n ns IH]; simpl; [reflexivity|]. destruct (f n); simpl; rewrite IH; reflexivity.
Qed.

Theorem payload_sorted is_ll g :
  match check_decision is_ll g with
  | NonProductive l | Unreachable l | LeftRecursive l => StronglySorted N.lt l
  | _ => True
  end.
Proof.
  assert (Hns : StronglySorted N.lt (nt_set g)) by apply to_set_sorted.
  assert (Hu : forall l, unproductive_nts g = Some l -> StronglySorted N.lt l).
  { unfold unproductive_nts. intros l. destruct (productive_vector g) as [rv|] eqn:E; [|discriminate].
    destruct (productive_vector_spec g rv E) as (f & -> & _). intros H. injection H as <-.
    rewrite unproductive_as_filter. apply filter_sorted. exact Hns. }
  assert (Hr : forall l, unreachable_nts g = Some l -> StronglySorted N.lt l).
  { unfold unreachable_nts. intros l. destruct (reachable_nts g); [|discriminate].
    intros H. injection H as <-. apply filter_sorted. exact Hns. }
  assert (Hl : forall l, left_recursive_nts g = Some l -> StronglySorted N.lt l).
  { unfold left_recursive_nts. intros l. destruct (nullable_nts g); [|discriminate].
    destruct (forallb _ (prods g)); [|discriminate].
    destruct (iter_until _ (csw_round g _) []); [|discriminate].
    destruct (iter_until _ (close_round _) _); [|discriminate].
    intros H. injection H as <-. apply filter_sorted. exact Hns. }
  unfold check_decision.
  destruct (unproductive_nts g) as [[|a0 lu]|] eqn:Eu; [|apply Hu; reflexivity|exact I].
  destruct (unreachable_nts g) as [[|a1 lr]|] eqn:Er; [|apply Hr; reflexivity|exact I].
  destruct is_ll; [|exact I].
  destruct (left_recursive_nts g) as [[|a2 ll]|] eqn:El; [exact I|apply Hl; reflexivity|exact I].
Qed.

(** ** Boolean checkers for the harness

    Each checker takes the set that the real Rust function returned (translated to numbers,
    in any order, duplicates allowed) and compares it with the model's set.  [true] therefore
    certifies, by the [*_sound] theorems, that the Rust output is the mathematically defined
    set — without trusting the transcription beyond the translation of the grammar. *)

Definition opt_set_eqb (o : option (list N)) (claimed : list N) : bool :=
  match o with Some l => set_eqb l claimed | None => false end.

Definition nullable_check (g : cfg) (claimed : list N) : bool :=
  opt_set_eqb (nullable_nts g) claimed.
Definition unproductive_check (g : cfg) (claimed : list N) : bool :=
  opt_set_eqb (unproductive_nts g) claimed.
Definition reachable_check (g : cfg) (claimed : list N) : bool :=
  opt_set_eqb (reachable_nts g) claimed.
Definition unreachable_check (g : cfg) (claimed : list N) : bool :=
  opt_set_eqb (unreachable_nts g) claimed.
Definition leftrec_check (g : cfg) (claimed : list N) : bool :=
  opt_set_eqb (left_recursive_nts g) claimed.

(** [true] iff the Rust functions [calculate_nullable_non_terminals] and
    [detect_left_recursive_non_terminals] panic on [g]. *)
Definition nullable_panics (g : cfg) : bool := negb (has_prods g (start g)).

Definition check_result_eqb (r1 r2 : check_result) : bool :=
  match r1, r2 with
  | Ok, Ok => true
  | NonProductive a, NonProductive b => set_eqb a b
  | Unreachable a, Unreachable b => set_eqb a b
  | LeftRecursive a, LeftRecursive b => set_eqb a b
  | _, _ => false
  end.

Definition decision_check (is_ll : bool) (g : cfg) (claimed : check_result) : bool :=
  check_result_eqb (check_decision is_ll g) claimed.

Lemma opt_set_eqb_true o c :
  opt_set_eqb o c = true <-> exists l, o = Some l /\ forall a, In a l <-> In a c.
Proof.
  unfold opt_set_eqb. destruct o as [l|]; [|split; [discriminate|intros (l & E & _); discriminate]].
  rewrite set_eqb_spec. split; [eauto|]. intros (l' & E & H). inversion E; subst. exact H.
Qed.

Theorem nullable_check_sound g c :
  nullable_check g c = true -> forall a, In a c <-> nullable g a.
Proof.
  intros H a. apply opt_set_eqb_true in H as (l & E & H). rewrite <- H. apply (nullable_exact g l E).
Qed.

Theorem unproductive_check_iff g c :
  unproductive_check g c = true <-> forall a, In a c <-> unproductive_nt g a.
Proof.
  unfold unproductive_check. rewrite opt_set_eqb_true. split.
  - intros (l & E & H) a. rewrite <- H. apply (productive_exact g l E).
  - intros H. destruct (unproductive_total g) as (l & E). exists l. split; [exact E|].
    intros a. rewrite H. apply (productive_exact g l E).
Qed.

Theorem reachable_check_iff g c :
  reachable_check g c = true <-> forall a, In a c <-> reachable g a.
Proof.
  unfold reachable_check. rewrite opt_set_eqb_true. split.
  - intros (l & E & H) a. rewrite <- H. apply (reachable_exact g l E).
  - intros H. destruct (reachable_total g) as (l & E). exists l. split; [exact E|].
    intros a. rewrite H. apply (reachable_exact g l E).
Qed.

Theorem unreachable_check_iff g c :
  unreachable_check g c = true <-> forall a, In a c <-> unreachable_nt g a.
Proof.
  unfold unreachable_check. rewrite opt_set_eqb_true. split.
  - intros (l & E & H) a. rewrite <- H. apply (unreachable_exact g l E).
  - intros H. destruct (unreachable_total g) as (l & E). exists l. split; [exact E|].
    intros a. rewrite H. apply (unreachable_exact g l E).
Qed.

Theorem leftrec_check_sound g c :
  leftrec_check g c = true -> forall a, In a c <-> left_rec g a.
Proof.
  intros H a. apply opt_set_eqb_true in H as (l & E & H). rewrite <- H. apply (leftrec_exact g l E).
Qed.

Theorem nullable_panics_spec g :
  nullable_panics g = true <-> nullable_nts g = None /\ left_recursive_nts g = None.
Proof.
  unfold nullable_panics. rewrite negb_true_iff, has_prods_false.
  rewrite nullable_nts_None, left_recursive_None. tauto.
Qed.

(** A claimed result passes [decision_check] iff it is the model's result up to the order of the
    payload; by [check_decision_exact] the model's result is the specified one. *)
Theorem decision_check_sound is_ll g claimed :
  decision_check is_ll g claimed = true ->
  match claimed with
  | NonProductive l => forall a, In a l <-> unproductive_nt g a
  | Unreachable l => (forall a, ~ unproductive_nt g a) /\ forall a, In a l <-> unreachable_nt g a
  | LeftRecursive l =>
      is_ll = true /\ (forall a, ~ unproductive_nt g a) /\ (forall a, ~ unreachable_nt g a) /\
      forall a, In a l <-> left_rec g a
  | Ok => (forall a, ~ unproductive_nt g a) /\ (forall a, ~ unreachable_nt g a) /\
          (is_ll = true -> forall a, ~ left_rec g a)
  | ModelError => False
  end.
Proof.
  unfold decision_check. pose proof (check_decision_exact is_ll g) as H.
  destruct (check_decision is_ll g) as [|l|l|l|], claimed as [|c|c|c|];
    cbn [check_result_eqb]; try discriminate; intros E; try (pose proof (proj1 (set_eqb_spec _ _) E) as E'; clear E; rename E' into E).
  - exact H.
  - destruct H as (_ & H). intros a. rewrite <- E. apply H.
  - destruct H as (HU & _ & H). split; [exact HU|]. intros a. rewrite <- E. apply H.
  - destruct H as (Hll & HU & HR & _ & H). repeat split; auto; intros Ha.
    + apply H. apply E. exact Ha.
    + apply E. apply H. exact Ha.
Qed.

(** ** Examples *)

(** [A: B A "x" | "y"; B: | "z";] — left recursion hidden behind the nullable [B].
    A = 0, B = 1; "x" = 5, "y" = 6, "z" = 7. *)
Definition g_hidden : cfg :=
  mkCfg 0 [mkProd 0 [NT 1; NT 0; T 5]; mkProd 0 [T 6]; mkProd 1 []; mkProd 1 [T 7]]%N.

Example g_hidden_nullable : nullable_nts g_hidden = Some [1%N].
Proof. vm_compute. reflexivity. Qed.
Example g_hidden_unproductive : unproductive_nts g_hidden = Some [].
Proof. vm_compute. reflexivity. Qed.
Example g_hidden_reachable : reachable_nts g_hidden = Some [0; 1]%N.
Proof. vm_compute. reflexivity. Qed.
Example g_hidden_leftrec : left_recursive_nts g_hidden = Some [0%N].
Proof. vm_compute. reflexivity. Qed.
Example g_hidden_ll : check_decision true g_hidden = LeftRecursive [0%N].
Proof. vm_compute. reflexivity. Qed.
Example g_hidden_lr : check_decision false g_hidden = Ok.
Proof. vm_compute. reflexivity. Qed.
Example g_hidden_left_rec : left_rec g_hidden 0.
Proof. apply (leftrec_exact g_hidden [0%N] g_hidden_leftrec). left. reflexivity. Qed.

(** Indirect left recursion (first grammar of the Rust unit test):
    [A: B "r"; B: C "d"; C: A "t";] *)
Definition g_indirect : cfg :=
  mkCfg 0 [mkProd 0 [NT 1; T 5]; mkProd 1 [NT 2; T 6]; mkProd 2 [NT 0; T 7]]%N.

Example g_indirect_leftrec : left_recursive_nts g_indirect = Some [0; 1; 2]%N.
Proof. vm_compute. reflexivity. Qed.
(** ... and it is rejected as non-productive before left recursion is ever looked at. *)
Example g_indirect_ll : check_decision true g_indirect = NonProductive [0; 1; 2]%N.
Proof. vm_compute. reflexivity. Qed.

(** Indirect and hidden at once: [S: A "a" | "b"; A: N S "d" | "c"; N: ;] *)
Definition g_both : cfg :=
  mkCfg 0 [mkProd 0 [NT 1; T 5]; mkProd 0 [T 6]; mkProd 1 [NT 2; NT 0; T 7]; mkProd 1 [T 8];
           mkProd 2 []]%N.
Example g_both_ll : check_decision true g_both = LeftRecursive [0; 1]%N.
Proof. vm_compute. reflexivity. Qed.

(** An unproductive cycle [C: D; D: C;] and a non-terminal [E] without productions:
    [S: C | "y" | E "y";]  S = 0, C = 1, D = 2, E = 3. *)
Definition g_unproductive : cfg :=
  mkCfg 0 [mkProd 0 [NT 1]; mkProd 0 [T 6]; mkProd 0 [NT 3; T 6]; mkProd 1 [NT 2];
           mkProd 2 [NT 1]]%N.
Example g_unproductive_set : unproductive_nts g_unproductive = Some [1; 2; 3]%N.
Proof. vm_compute. reflexivity. Qed.
Example g_unproductive_decision :
  check_decision true g_unproductive = NonProductive [1; 2; 3]%N.
Proof. vm_compute. reflexivity. Qed.

(** Unreachable non-terminals: [S: "y"; U: "z" V; V: "z";] *)
Definition g_unreachable : cfg :=
  mkCfg 0 [mkProd 0 [T 6]; mkProd 1 [T 7; NT 2]; mkProd 2 [T 7]]%N.
Example g_unreachable_set : unreachable_nts g_unreachable = Some [1; 2]%N.
Proof. vm_compute. reflexivity. Qed.
Example g_unreachable_decision : check_decision false g_unreachable = Unreachable [1; 2]%N.
Proof. vm_compute. reflexivity. Qed.

(** A nullable chain that needs several sweeps: [A: B; B: C; C: ;] *)
Definition g_chain : cfg := mkCfg 0 [mkProd 0 [NT 1]; mkProd 1 [NT 2]; mkProd 2 []]%N.
Example g_chain_nullable : nullable_nts g_chain = Some [0; 1; 2]%N.
Proof. vm_compute. reflexivity. Qed.
Example g_chain_ok : check_decision true g_chain = Ok.
Proof. vm_compute. reflexivity. Qed.

(** The start symbol has no production: the nullable / left-recursion functions panic, the
    overall check reports the start symbol as non-productive. *)
Definition g_nostart : cfg := mkCfg 0 [mkProd 1 [T 5]]%N.
Example g_nostart_nullable : nullable_nts g_nostart = None.
Proof. vm_compute. reflexivity. Qed.
Example g_nostart_panics : nullable_panics g_nostart = true.
Proof. vm_compute. reflexivity. Qed.
Example g_nostart_decision : check_decision true g_nostart = NonProductive [0%N].
Proof. vm_compute. reflexivity. Qed.

(** The doc-test grammar of [calculate_nullable_non_terminals]:
    S = 0, U = 1, V = 2, X = 3, Y = 4, Z = 5 (alphabetical). *)
Definition g_doc : cfg :=
  mkCfg 0 [mkProd 0 [NT 4]; mkProd 4 [NT 1; NT 5]; mkProd 4 [NT 3; T 5]; mkProd 4 [T 6];
           mkProd 1 [NT 2]; mkProd 1 []; mkProd 3 [T 7]; mkProd 2 [NT 2; T 8]; mkProd 2 [T 8];
           mkProd 5 []; mkProd 5 [NT 5; NT 3]]%N.
Example g_doc_nullable : nullable_nts g_doc = Some [0; 1; 4; 5]%N.
Proof. vm_compute. reflexivity. Qed.

Example checkers_run :
  nullable_check g_hidden [1; 1]%N = true /\ leftrec_check g_both [1; 0]%N = true /\
  unproductive_check g_unproductive [3; 1; 2]%N = true /\
  unreachable_check g_unreachable [2; 1]%N = true /\ reachable_check g_unreachable [0%N] = true /\
  decision_check true g_both (LeftRecursive [1; 0]%N) = true /\
  decision_check true g_both Ok = false.
Proof. vm_compute. repeat split. Qed.

Print Assumptions nullable_exact.
Print Assumptions nullable_nts_None.
Print Assumptions productive_exact.
Print Assumptions unproductive_total.
Print Assumptions reachable_exact.
Print Assumptions unreachable_exact.
Print Assumptions leftrec_exact.
Print Assumptions left_recursive_None.
Print Assumptions check_decision_exact.
Print Assumptions check_ok_iff.
Print Assumptions decision_check_sound.
Print Assumptions nullable_panics_spec.
Print Assumptions payload_sorted.
