(** * Tokens, [TokenIter] and [TokenBuffer] of the parol runtime
      (crates/parol_runtime/src/lexer/token.rs, token_iter.rs, token_buffer.rs)

    What is transcribed
    - [Token] with the fields that the runtime logic reads: [token_type], the byte offsets
      [location.start] / [location.end], [token_number] and [state_skip].  Text is not a field: it is
      always the slice [input[start..end]] (for the end-of-input tokens it is the constant "$").
      Line/column numbers come from [scnr2] and are not modelled.
    - [is_skip_token], [is_effectively_skip_token], [is_comment_token], [set_state_skip],
      [Token::eoi(TokenNumber::MAX)] ([eoi_filler]: [Location::default()] has start = end = 0).
    - [TokenIter]: an iterator is modelled as the (lazy) list of its items.  [token_iter ms k0] is
      everything [TokenIter::next] returns: one token per scanner match ([token_from_match], with
      the [token_number] counter that is incremented only after non-skip or comment tokens) and
      then [k0] end-of-input tokens at [input.len()] whose numbers come from
      [next_token_number].  Each item is paired with [find_iter.current_mode()] read BEFORE the
      call of [next] (this is what [TokenStream::read_tokens] does), i.e. the scanner mode in which
      the match was produced, and the mode after the last match for the end-of-input tokens.
      NOTE: the [k] of the [TokenIter] is what [TokenStream::new_with_skip_tokens] gives it.
      Current code: [max(1, k)] (the same value the stream uses) - see [stream_tokens],
      [eoi_tokens].  At the pinned commit it was the caller's [k] UNCHANGED (possibly 0) while
      the stream used [max(1, k)] - see [stream_tokens_old], [eoi_tokens_old].
    - [TokenBuffer::add] ([buf_add]): the gap token of type [INVALID_TOKEN] from
      [last_token_location] to the start of the new token when [last_token_location < start],
      its token number ([last_token_number + 1], or [MAX] if that is [MAX]), the update of
      [last_token_location] / [last_token_number].

    Scanner output ([smatch]): token type, start and end byte offset, scanner mode in which the
    match was produced.  [len] is the length of the text in bytes, [final_mode] the scanner mode
    after the last match, [skips] the per-mode skip lists ([SKIP_TOKENS_BY_SCANNER_STATE]).

    Assumptions (documented, not modelled): [Match::positions] is always [Some] (it is, for
    [find_matches_with_position]; a [None] would end the [while let] loop of [read_tokens] early);
    offsets fit into [u32] and token numbers do not overflow. *)
From Coq Require Import List Arith NArith Bool Lia.
Import ListNotations.
Local Open Scope N_scope.

(** ** Token type constants (lexer/token.rs) *)
Definition EOI : N := 0.
Definition NEW_LINE : N := 1.
Definition WHITESPACE : N := 2.
Definition LINE_COMMENT : N := 3.
Definition BLOCK_COMMENT : N := 4.
Definition FIRST_USER_TOKEN : N := 5.
Definition INVALID_TOKEN : N := 65534.            (* TerminalIndex::MAX - 1 *)
Definition TOKEN_NUMBER_MAX : N := 4294967295.    (* TokenNumber::MAX = u32::MAX *)

Record token := mkTok {
  t_type : N;            (* token_type *)
  t_start : N;           (* location.start *)
  t_end : N;             (* location.end *)
  t_num : N;             (* token_number *)
  t_state_skip : bool    (* state_skip *)
}.

(** [Token::eoi(TokenNumber::MAX)] *)
Definition eoi_filler : token := mkTok EOI 0 0 TOKEN_NUMBER_MAX false.

(** [token_type > EOI && token_type < FIRST_USER_TOKEN || token_type == INVALID_TOKEN] *)
Definition is_skip_token (t : token) : bool :=
  (N.ltb EOI (t_type t) && N.ltb (t_type t) FIRST_USER_TOKEN) || N.eqb (t_type t) INVALID_TOKEN.

Definition is_effectively_skip_token (t : token) : bool := is_skip_token t || t_state_skip t.

Definition is_comment_token (t : token) : bool :=
  N.eqb (t_type t) LINE_COMMENT || N.eqb (t_type t) BLOCK_COMMENT.

Definition set_state_skip (t : token) (b : bool) : token :=
  mkTok (t_type t) (t_start t) (t_end t) (t_num t) b.

(** A token the parser gets to see: [!is_effectively_skip_token()]. *)
Definition significant (t : token) : bool := negb (is_effectively_skip_token t).

(** ** Scanner output *)
Record smatch := mkMatch {
  m_type : N;            (* Match::token_type *)
  m_start : N;           (* Match::span.start *)
  m_end : N;             (* Match::span.end *)
  m_mode : N             (* scanner mode in which the match was produced *)
}.

(** ** [TokenBuffer] *)
Record tbuf := mkBuf {
  b_toks : list token;   (* tokens *)
  b_last_loc : N;        (* last_token_location *)
  b_last_num : N         (* last_token_number *)
}.

Definition buf_new : tbuf := mkBuf [] 0 0.

Definition gap_token (last lastnum new_start : N) : token :=
  mkTok INVALID_TOKEN last new_start
        (if N.eqb lastnum TOKEN_NUMBER_MAX then TOKEN_NUMBER_MAX else lastnum + 1) false.

(** The tokens [add] pushes before the new token: a gap token iff [last_token_location < start]. *)
Definition gap_for (last lastnum : N) (t : token) : list token :=
  if N.ltb last (t_start t) then [gap_token last lastnum (t_start t)] else [].

(** [TokenBuffer::add] *)
Definition buf_add (t : token) (b : tbuf) : tbuf :=
  mkBuf (b_toks b ++ gap_for (b_last_loc b) (b_last_num b) t ++ [t]) (t_end t) (t_num t).

(** What a buffer whose bookkeeping is [(last, lastnum)] appends when the tokens [ts] are added
    one after the other. *)
Fixpoint gapped (last lastnum : N) (ts : list token) : list token :=
  match ts with
  | [] => []
  | t :: ts' => gap_for last lastnum t ++ t :: gapped (t_end t) (t_num t) ts'
  end.

Fixpoint end_loc (last : N) (ts : list token) : N :=
  match ts with [] => last | t :: ts' => end_loc (t_end t) ts' end.

Fixpoint end_num (lastnum : N) (ts : list token) : N :=
  match ts with [] => lastnum | t :: ts' => end_num (t_num t) ts' end.

Definition buf_add_all (ts : list token) (b : tbuf) : tbuf :=
  fold_left (fun b t => buf_add t b) ts b.

Lemma buf_add_all_spec ts : forall b,
  buf_add_all ts b =
  mkBuf (b_toks b ++ gapped (b_last_loc b) (b_last_num b) ts)
        (end_loc (b_last_loc b) ts) (end_num (b_last_num b) ts).
Proof.
  induction ts as [|t ts IH]; intros b; cbn [buf_add_all fold_left gapped end_loc end_num].
  - rewrite app_nil_r. destruct b; reflexivity.
  - change (fold_left (fun b0 t0 => buf_add t0 b0) ts (buf_add t b)) with (buf_add_all ts (buf_add t b)).
    rewrite IH. unfold buf_add; cbn [b_toks b_last_loc b_last_num].
    rewrite <- !app_assoc. reflexivity.
Qed.

Lemma gapped_app ts1 : forall last lastnum ts2,
  gapped last lastnum (ts1 ++ ts2) =
  gapped last lastnum ts1 ++ gapped (end_loc last ts1) (end_num lastnum ts1) ts2.
Proof.
  induction ts1 as [|t ts1 IH]; intros last lastnum ts2; cbn [app gapped end_loc end_num].
  - reflexivity.
  - rewrite IH, <- app_assoc. reflexivity.
Qed.

Section Scan.

Variable skips : list (list N).    (* SKIP_TOKENS_BY_SCANNER_STATE *)
Variable len : N.                  (* input.len() *)
Variable final_mode : N.           (* current_mode() once the scanner is exhausted *)

(** [TokenStream::is_state_skip_token] *)
Definition is_state_skip (ty mode : N) : bool :=
  match nth_error skips (N.to_nat mode) with
  | Some l => existsb (N.eqb ty) l
  | None => false
  end.

(** [TokenIter::token_from_match]: the token and the new value of [self.token_number]. *)
Definition token_from_match (m : smatch) (num : N) : token * N :=
  let t := mkTok (m_type m) (m_start m) (m_end m) num false in
  (t, if negb (is_skip_token t) || is_comment_token t then num + 1 else num).

Fixpoint iter_matches (ms : list smatch) (num : N) : list (N * token) :=
  match ms with
  | [] => []
  | m :: ms' =>
      let r := token_from_match m num in (m_mode m, fst r) :: iter_matches ms' (snd r)
  end.

Fixpoint iter_num (ms : list smatch) (num : N) : N :=
  match ms with
  | [] => num
  | m :: ms' => iter_num ms' (snd (token_from_match m num))
  end.

(** The [k0] end-of-input tokens: [Token::eoi(self.next_token_number())] at [input.len()]. *)
Fixpoint iter_eois (k0 : nat) (num : N) : list (N * token) :=
  match k0 with
  | O => []
  | S k' => (final_mode, mkTok EOI len len (num + 1) false) :: iter_eois k' (num + 1)
  end.

(** Everything [TokenIter::next] yields, each item with the scanner mode before the call. *)
Definition token_iter (ms : list smatch) (k0 : nat) : list (N * token) :=
  iter_matches ms 0 ++ iter_eois k0 (iter_num ms 0).

(** The first statement in the loop of [read_tokens]:
    [token.set_state_skip(self.is_state_skip_token(token.token_type, scanner_state))]. *)
Definition flag_token (mt : N * token) : token :=
  set_state_skip (snd mt) (is_state_skip (t_type (snd mt)) (fst mt)).

(** ** The complete delivered token sequence *)

(** The tokens for the scanner matches, with their skip flags. *)
Definition match_tokens (ms : list smatch) : list token := map flag_token (iter_matches ms 0).

(** The end-of-input tokens of an iterator created with lookahead size [k], with their skip
    flags. *)
Definition eoi_tokens_old (ms : list smatch) (k : nat) : list token :=
  map flag_token (iter_eois k (iter_num ms 0)).

(** ... for a stream created with [TokenStream::new(.., k0, ..)]: the iterator gets
    [max(1, k0)].  ([eoi_tokens_old]: pinned commit, the iterator got [k0].) *)
Definition eoi_tokens (ms : list smatch) (k0 : nat) : list token :=
  eoi_tokens_old ms (Nat.max 1 k0).

(** The gap token in front of the first end-of-input token (unmatched text at the very end). *)
Definition trailing_gap (last lastnum : N) : list token :=
  if N.ltb last len then [gap_token last lastnum len] else [].

(** [all_tokens ms]: every token the runtime delivers for the scanner output [ms] when
    [k0 >= 1] - significant, skipped, comments and gaps, in order, without the end-of-input
    tokens.  It is a function of the scanner output only. *)
Definition all_tokens (ms : list smatch) : list token :=
  let mt := match_tokens ms in
  gapped 0 0 mt ++ trailing_gap (end_loc 0 mt) (end_num 0 mt).

(** Everything the buffer ever holds when the iterator items are added one by one (without the
    [Token::eoi(MAX)] fillers): [gapped 0 0] of the flagged iterator output. *)
Definition stream_tokens_old (ms : list smatch) (k : nat) : list token :=
  gapped 0 0 (map flag_token (token_iter ms k)).

(** ... for a stream created with [TokenStream::new(.., k0, ..)] (current code). *)
Definition stream_tokens (ms : list smatch) (k0 : nat) : list token :=
  stream_tokens_old ms (Nat.max 1 k0).

Definition significant_tokens (ms : list smatch) : list token := filter significant (all_tokens ms).

(** *** Shape of the flagged tokens *)
Lemma flag_token_start mt : t_start (flag_token mt) = t_start (snd mt).
Proof. reflexivity. Qed.
Lemma flag_token_end mt : t_end (flag_token mt) = t_end (snd mt).
Proof. reflexivity. Qed.
Lemma flag_token_num mt : t_num (flag_token mt) = t_num (snd mt).
Proof. reflexivity. Qed.
Lemma flag_token_type mt : t_type (flag_token mt) = t_type (snd mt).
Proof. reflexivity. Qed.

Lemma gapped_eois k0 : forall num lastnum,
  gapped len lastnum (map flag_token (iter_eois k0 num)) = map flag_token (iter_eois k0 num).
Proof.
  induction k0 as [|k0 IH]; intros num lastnum; cbn [iter_eois map gapped].
  - reflexivity.
  - unfold gap_for. rewrite flag_token_start; cbn [snd t_start].
    rewrite N.ltb_irrefl. cbn [app]. rewrite flag_token_end; cbn [snd t_end].
    rewrite IH. reflexivity.
Qed.

(** With at least one end-of-input token from the iterator, the buffer contents are
    [all_tokens] followed by the end-of-input tokens. *)
Theorem stream_tokens_old_eq ms k0 : (1 <= k0)%nat ->
  stream_tokens_old ms k0 = all_tokens ms ++ eoi_tokens_old ms k0.
Proof.
  intros Hk. unfold stream_tokens_old, token_iter, all_tokens, eoi_tokens_old.
  rewrite map_app, gapped_app. fold (match_tokens ms).
  rewrite <- app_assoc. f_equal.
  destruct k0 as [|k0]; [lia|].
  cbn [iter_eois map gapped]. unfold gap_for, trailing_gap.
  rewrite flag_token_start, flag_token_end, flag_token_num; cbn [snd t_start t_end t_num].
  rewrite gapped_eois.
  destruct (N.ltb (end_loc 0 (match_tokens ms)) len); reflexivity.
Qed.

(** Current code, every [k0]: the iterator always yields an end-of-input token. *)
Theorem stream_tokens_eq ms k0 :
  stream_tokens ms k0 = all_tokens ms ++ eoi_tokens ms k0.
Proof. apply stream_tokens_old_eq. lia. Qed.

(** Pinned commit with [k0 = 0]: the iterator yields no end-of-input token, nothing is ever
    added at [input.len()], so the trailing gap is never created. *)
Lemma stream_tokens_old_k0 ms : stream_tokens_old ms 0 = gapped 0 0 (match_tokens ms).
Proof.
  unfold stream_tokens_old, token_iter. cbn [iter_eois]. rewrite app_nil_r. reflexivity.
Qed.

(** [all_tokens] is what [TokenBuffer::add] produces for the matches and one end-of-input token. *)
Theorem all_tokens_is_buffer ms :
  b_toks (buf_add_all (map flag_token (token_iter ms 1)) buf_new) = all_tokens ms ++ eoi_tokens ms 1.
Proof.
  rewrite buf_add_all_spec. cbn [buf_new b_toks b_last_loc b_last_num app].
  apply (stream_tokens_eq ms 1).
Qed.

(** ** Contiguity *)

(** [chain a l b]: the tokens of [l] start at [a], each starts where the previous one ends, the
    last one ends at [b] (for [l = []]: [a = b]); no token has a negative length. *)
Fixpoint chain (a : N) (l : list token) (b : N) : Prop :=
  match l with
  | [] => a = b
  | t :: l' => t_start t = a /\ a <= t_end t /\ chain (t_end t) l' b
  end.

Lemma chain_app l1 : forall a b c l2, chain a l1 b -> chain b l2 c -> chain a (l1 ++ l2) c.
Proof.
  induction l1 as [|t l1 IH]; intros a b c l2 H1 H2; cbn [app chain] in *.
  - subst b. exact H2.
  - destruct H1 as (Hs & Hle & H1). repeat split; [exact Hs|exact Hle|].
    apply (IH _ b); assumption.
Qed.

Lemma chain_split l1 : forall a c l2, chain a (l1 ++ l2) c -> exists b, chain a l1 b /\ chain b l2 c.
Proof.
  induction l1 as [|t l1 IH]; intros a c l2 H; cbn [app chain] in *.
  - exists a. split; [reflexivity|exact H].
  - destruct H as (Hs & Hle & H). destruct (IH _ _ _ H) as (b & H1 & H2).
    exists b. repeat split; assumption.
Qed.

Lemma chain_le l : forall a b, chain a l b -> a <= b.
Proof.
  induction l as [|t l IH]; intros a b H; cbn [chain] in H.
  - subst b. lia.
  - destruct H as (_ & Hle & H). apply IH in H. lia.
Qed.

(** The tokens [ts] are in order, do not overlap and none starts before [a]. *)
Fixpoint ordered (a : N) (ts : list token) : Prop :=
  match ts with
  | [] => True
  | t :: ts' => a <= t_start t /\ t_start t <= t_end t /\ ordered (t_end t) ts'
  end.

Lemma gapped_chain ts : forall a n, ordered a ts -> chain a (gapped a n ts) (end_loc a ts).
Proof.
  induction ts as [|t ts IH]; intros a n H; cbn [gapped end_loc ordered] in *.
  - reflexivity.
  - destruct H as (Ha & Hse & H). unfold gap_for.
    destruct (N.ltb_spec a (t_start t)) as [Hlt|Hge]; cbn [app chain gap_token t_start t_end].
    + repeat split; try lia. apply IH. exact H.
    + repeat split; try lia. apply IH. exact H.
Qed.

Lemma ordered_end_loc ts : forall a, ordered a ts -> a <= end_loc a ts.
Proof.
  induction ts as [|t ts IH]; intros a H; cbn [end_loc ordered] in *.
  - lia.
  - destruct H as (Ha & Hse & H). apply IH in H. lia.
Qed.

(** Well-formed scanner output: matches in increasing order, not overlapping, none of negative
    length, none beyond the end of the text.  (Empty matches and gaps are allowed.) *)
Fixpoint matches_ok_from (a : N) (ms : list smatch) : bool :=
  match ms with
  | [] => N.leb a len
  | m :: ms' => N.leb a (m_start m) && N.leb (m_start m) (m_end m) && matches_ok_from (m_end m) ms'
  end.

Definition matches_ok (ms : list smatch) : bool := matches_ok_from 0 ms.

Lemma matches_ok_ordered ms : forall a num,
  matches_ok_from a ms = true ->
  ordered a (map flag_token (iter_matches ms num)) /\
  end_loc a (map flag_token (iter_matches ms num)) <= len.
Proof.
  induction ms as [|m ms IH]; intros a num H; cbn [matches_ok_from iter_matches map ordered end_loc] in *.
  - split; [exact I|]. apply N.leb_le. exact H.
  - apply andb_prop in H. destruct H as (H & H3). apply andb_prop in H. destruct H as (H1 & H2).
    apply N.leb_le in H1. apply N.leb_le in H2.
    rewrite flag_token_start, flag_token_end. cbn [fst snd token_from_match t_start t_end].
    destruct (IH (m_end m) (snd (token_from_match m num)) H3) as (IH1 & IH2).
    repeat split; try assumption.
Qed.

(** [buffer_contiguous], stated for the complete token sequence: first start = 0, each start =
    previous end, last end = [len]. *)
Theorem all_tokens_contiguous ms : matches_ok ms = true -> chain 0 (all_tokens ms) len.
Proof.
  intros H. unfold all_tokens.
  destruct (matches_ok_ordered ms 0 0 H) as (Hord & Hend). fold (match_tokens ms) in Hord, Hend.
  apply (chain_app _ 0 (end_loc 0 (match_tokens ms))).
  - apply gapped_chain. exact Hord.
  - unfold trailing_gap.
    destruct (N.ltb_spec (end_loc 0 (match_tokens ms)) len) as [Hlt|Hge]; cbn [chain gap_token t_start t_end].
    + repeat split; lia.
    + lia.
Qed.

(** The iterator's end-of-input tokens are empty tokens at [len]. *)
Lemma eoi_tokens_old_chain ms k0 : chain len (eoi_tokens_old ms k0) len.
Proof.
  unfold eoi_tokens_old. generalize (iter_num ms 0). induction k0 as [|k0 IH]; intros num; cbn [iter_eois map chain].
  - reflexivity.
  - rewrite flag_token_start, flag_token_end. cbn [snd t_start t_end]. repeat split; try lia. apply IH.
Qed.

Lemma eoi_tokens_chain ms k0 : chain len (eoi_tokens ms k0) len.
Proof. apply eoi_tokens_old_chain. Qed.

End Scan.

(** ** Texts *)
Section Text.
Variable A : Type.

Definition slice (text : list A) (s e : N) : list A :=
  firstn (N.to_nat e - N.to_nat s) (skipn (N.to_nat s) text).

Lemma firstn_add (n m : nat) : forall (u : list A), firstn n u ++ firstn m (skipn n u) = firstn (n + m) u.
Proof.
  induction n as [|n IH]; intros u.
  - reflexivity.
  - destruct u as [|x u]; cbn [firstn skipn plus app].
    + rewrite firstn_nil. reflexivity.
    + rewrite IH. reflexivity.
Qed.

Lemma skipn_add (n m : nat) : forall (u : list A), skipn m (skipn n u) = skipn (n + m) u.
Proof.
  induction n as [|n IH]; intros u.
  - reflexivity.
  - destruct u as [|x u]; cbn [skipn plus].
    + destruct m; reflexivity.
    + apply IH.
Qed.

Lemma slice_app text a e b : a <= e -> e <= b -> slice text a e ++ slice text e b = slice text a b.
Proof.
  intros H1 H2. unfold slice.
  assert (Hsk : skipn (N.to_nat e) text
                = skipn (N.to_nat e - N.to_nat a) (skipn (N.to_nat a) text)).
  { rewrite skipn_add. f_equal. lia. }
  rewrite Hsk, firstn_add. f_equal. lia.
Qed.

(** The text of a token: [input[start..end]]. *)
Definition token_text (text : list A) (t : token) : list A := slice text (t_start t) (t_end t).

Lemma chain_cover text l : forall a b, chain a l b ->
  concat (map (token_text text) l) = slice text a b.
Proof.
  induction l as [|t l IH]; intros a b H; cbn [chain map concat] in *.
  - subst b. unfold slice. rewrite Nat.sub_diag. reflexivity.
  - destruct H as (Hs & Hle & H). rewrite (IH _ _ H). unfold token_text. rewrite Hs.
    apply slice_app; [exact Hle|]. apply (chain_le _ _ _ H).
Qed.

Lemma slice_all text : slice text 0 (N.of_nat (length text)) = text.
Proof.
  unfold slice. cbn [N.to_nat skipn]. rewrite Nat.sub_0_r, Nnat.Nat2N.id. apply firstn_all.
Qed.

End Text.

(** The texts of all delivered tokens concatenate to the input. *)
Theorem tokens_cover_text (A : Type) (text : list A) skips ms :
  matches_ok (N.of_nat (length text)) ms = true ->
  concat (map (token_text A text) (all_tokens skips (N.of_nat (length text)) ms)) = text.
Proof.
  intros H. rewrite (chain_cover A text _ 0 (N.of_nat (length text))).
  - apply slice_all.
  - apply all_tokens_contiguous. exact H.
Qed.

(** ** Checker for token lists observed on the implementation *)

(** [tokens_check text_len toks]: the triples (type, start, end) are contiguous from 0 to
    [text_len]. *)
Fixpoint tokens_check_from (a : N) (toks : list (N * N * N)) (text_len : N) : bool :=
  match toks with
  | [] => N.eqb a text_len
  | (_, s, e) :: r => N.eqb s a && N.leb s e && tokens_check_from e r text_len
  end.

Definition tokens_check (text_len : N) (toks : list (N * N * N)) : bool :=
  tokens_check_from 0 toks text_len.

Definition triple_token (x : N * N * N) : token :=
  match x with (ty, s, e) => mkTok ty s e 0 false end.

Definition token_triple (t : token) : N * N * N := (t_type t, t_start t, t_end t).

Lemma tokens_check_from_spec toks : forall a text_len,
  tokens_check_from a toks text_len = true <-> chain a (map triple_token toks) text_len.
Proof.
  induction toks as [|[[ty s] e] toks IH]; intros a text_len; cbn [tokens_check_from map chain triple_token t_start t_end].
  - apply N.eqb_eq.
  - rewrite !andb_true_iff, N.eqb_eq, N.leb_le, IH. split.
    + intros ((H1 & H2) & H3). subst s. repeat split; assumption.
    + intros (H1 & H2 & H3). subst s. repeat split; assumption.
Qed.

Theorem tokens_check_spec text_len toks :
  tokens_check text_len toks = true <-> chain 0 (map triple_token toks) text_len.
Proof. apply tokens_check_from_spec. Qed.

(** A token list that passes the check reproduces every text of that length. *)
Theorem tokens_check_cover (A : Type) (text : list A) toks :
  tokens_check (N.of_nat (length text)) toks = true ->
  concat (map (fun x => slice A text (snd (fst x)) (snd x)) toks) = text.
Proof.
  intros H. apply tokens_check_spec in H.
  transitivity (slice A text 0 (N.of_nat (length text))); [|apply slice_all].
  rewrite <- (chain_cover A text _ _ _ H).
  rewrite map_map. f_equal. apply map_ext. intros [[ty s] e]. reflexivity.
Qed.

Lemma chain_triples l : forall a b, chain a l b <-> chain a (map triple_token (map token_triple l)) b.
Proof.
  induction l as [|t l IH]; intros a b; cbn [map chain token_triple triple_token t_start t_end].
  - reflexivity.
  - rewrite IH. reflexivity.
Qed.

(** The model's token sequence passes the checker. *)
Theorem all_tokens_check skips len ms :
  matches_ok len ms = true -> tokens_check len (map token_triple (all_tokens skips len ms)) = true.
Proof.
  intros H. apply tokens_check_spec. apply (proj1 (chain_triples _ _ _)).
  apply all_tokens_contiguous. exact H.
Qed.

(** ** Examples *)

(** Text "ab  c?" + 1 unmatched byte at the end (length 7): a(5) at 0..1, b(6) at 1..2, whitespace
    2..4, c(7) at 4..5, nothing matches 5..7; mode 0 throughout; mode 0 skips terminal 7. *)
Definition ex_matches : list smatch :=
  [mkMatch 5 0 1 0; mkMatch 6 1 2 0; mkMatch 2 2 4 0; mkMatch 7 4 5 0].

Example ex_matches_ok : matches_ok 7 ex_matches = true.
Proof. reflexivity. Qed.

Example ex_all_tokens :
  all_tokens [[7]] 7 ex_matches =
  [mkTok 5 0 1 0 false; mkTok 6 1 2 1 false; mkTok 2 2 4 2 false; mkTok 7 4 5 2 true;
   mkTok INVALID_TOKEN 5 7 3 false].
Proof. vm_compute. reflexivity. Qed.

Example ex_significant :
  map t_type (significant_tokens [[7]] 7 ex_matches) = [5; 6].
Proof. vm_compute. reflexivity. Qed.

Example ex_tokens_check :
  tokens_check 7 (map token_triple (all_tokens [[7]] 7 ex_matches)) = true.
Proof. vm_compute. reflexivity. Qed.

Example ex_tokens_check_bad : tokens_check 7 [(5, 0, 1); (6, 2, 7)] = false.
Proof. vm_compute. reflexivity. Qed.

Example ex_cover :
  concat (map (token_text nat [10; 11; 12; 13; 14; 15; 16]%nat) (all_tokens [[7]] 7 ex_matches))
  = [10; 11; 12; 13; 14; 15; 16]%nat.
Proof. vm_compute. reflexivity. Qed.

(** A gap in the middle and the token numbers: the gap token gets [last_token_number + 1],
    which is also the number of the token that follows it (OBSERVATION: token numbers are
    documented as unique; gap tokens duplicate the number of their successor when the previous
    token was a non-skip or comment token). *)
Example ex_gap_numbers :
  all_tokens [] 3 [mkMatch 5 0 1 0; mkMatch 6 2 3 0] =
  [mkTok 5 0 1 0 false; mkTok INVALID_TOKEN 1 2 1 false; mkTok 6 2 3 1 false].
Proof. vm_compute. reflexivity. Qed.

Print Assumptions stream_tokens_old_eq.
Print Assumptions stream_tokens_eq.
Print Assumptions all_tokens_is_buffer.
Print Assumptions all_tokens_contiguous.
Print Assumptions tokens_cover_text.
Print Assumptions tokens_check_spec.
Print Assumptions tokens_check_cover.
Print Assumptions all_tokens_check.
