(** * EBNF grammars (groups, optionals, repetitions, alternations) and their language.

    [factor]/[alts]/[eprod]/[egrammar] mirror [Factor]/[Alternations]/[Production] of
    crates/parol/src/parser/parol_grammar.rs with attributes, scanner states, user types and
    member names erased (none of them influences which strings are generated, and none of them is
    inspected by the canonicalisation's control flow).  Terminals and non-terminals are numbers as
    in [Grammar.Cfg].  The same left-hand side may occur in several productions.

    Contents
    - the matching relation [ematch] (mutually inductive [mseq]/[mfac]/[malts]) and [elang];
    - structural lemmas (append, repetition = concatenation of a list of matches);
    - a generic theory of *definitional extensions*: replacing occurrences of a factor [F] by a
      fresh non-terminal [X] whose new productions describe [F] ([ext_preserves]); this is the
      engine of every language-preservation proof for EBNF rewrites (here and in Transform/Canon);
    - the embedding of group-free EBNF into [cfg] ([to_cfg], [to_cfg_derives]);
    - [ebnf_to_bnf], a simple EBNF -> BNF translation that is *not* parol's (one fresh numbered
      non-terminal per non-atomic top-level factor, repeated until nothing is left), proved
      language preserving, and [emember] = [Member.member] after that translation, with
      [emember_sound]/[emember_complete] against [elang]. *)
From Coq Require Import List NArith Arith Bool Lia.
From Parol Require Import Grammar.Cfg Grammar.Member.
Import ListNotations.

Inductive factor :=
| FT (t : N)
| FN (a : N)
| FGroup (b : list (list factor))
| FOpt (b : list (list factor))
| FRep (b : list (list factor)).

Definition alts := list (list factor).
Definition eprod := (N * alts)%type.
Record egrammar := mkEg { estart : N; eprods : list eprod }.

(** ** Nested induction principle *)
Section FactorInd.
  Variable P : factor -> Prop.
  Variable Q : list factor -> Prop.
  Variable R : alts -> Prop.
  Hypothesis HT : forall t, P (FT t).
  Hypothesis HN : forall a, P (FN a).
  Hypothesis HG : forall b, R b -> P (FGroup b).
  Hypothesis HO : forall b, R b -> P (FOpt b).
  Hypothesis HR : forall b, R b -> P (FRep b).
  Hypothesis HQ0 : Q [].
  Hypothesis HQ1 : forall f fs, P f -> Q fs -> Q (f :: fs).
  Hypothesis HR0 : R [].
  Hypothesis HR1 : forall a b, Q a -> R b -> R (a :: b).

  Fixpoint factor_ind3 (f : factor) : P f :=
    let seq_ind := fix seq_ind (a : list factor) : Q a :=
      match a with [] => HQ0 | f :: a' => HQ1 f a' (factor_ind3 f) (seq_ind a') end in
    let alts_ind := fix alts_ind (b : alts) : R b :=
      match b with [] => HR0 | a :: b' => HR1 a b' (seq_ind a) (alts_ind b') end in
    match f with
    | FT t => HT t
    | FN a => HN a
    | FGroup b => HG b (alts_ind b)
    | FOpt b => HO b (alts_ind b)
    | FRep b => HR b (alts_ind b)
    end.

  Fixpoint seq_ind3 (a : list factor) : Q a :=
    match a with [] => HQ0 | f :: a' => HQ1 f a' (factor_ind3 f) (seq_ind3 a') end.
  Fixpoint alts_ind3 (b : alts) : R b :=
    match b with [] => HR0 | a :: b' => HR1 a b' (seq_ind3 a) (alts_ind3 b') end.

  Lemma factor_mutind : (forall f, P f) /\ (forall a, Q a) /\ (forall b, R b).
  Proof. repeat split; [exact factor_ind3|exact seq_ind3|exact alts_ind3]. Qed.
End FactorInd.

(** ** Matching *)
Section Match.
  Variable ps : list eprod.

  Inductive mseq : list factor -> list N -> Prop :=
  | ms_nil : mseq [] []
  | ms_cons f fs u v : mfac f u -> mseq fs v -> mseq (f :: fs) (u ++ v)
  with mfac : factor -> list N -> Prop :=
  | mf_T t : mfac (FT t) [t]
  | mf_N a b w : In (a, b) ps -> malts b w -> mfac (FN a) w
  | mf_G b w : malts b w -> mfac (FGroup b) w
  | mf_O0 b : mfac (FOpt b) []
  | mf_O1 b w : malts b w -> mfac (FOpt b) w
  | mf_R0 b : mfac (FRep b) []
  | mf_RS b u v : malts b u -> mfac (FRep b) v -> mfac (FRep b) (u ++ v)
  with malts : alts -> list N -> Prop :=
  | ma b a w : In a b -> mseq a w -> malts b w.
End Match.

Scheme mseq_mut := Minimality for mseq Sort Prop
  with mfac_mut := Minimality for mfac Sort Prop
  with malts_mut := Minimality for malts Sort Prop.
Combined Scheme ematch_mutind from mseq_mut, mfac_mut, malts_mut.

(** [ematch G fs w]: the sequence of factors [fs] matches the terminal string [w] in [G]. *)
Definition ematch (G : egrammar) : list factor -> list N -> Prop := mseq (eprods G).
Definition elang (G : egrammar) (w : list N) : Prop := ematch G [FN (estart G)] w.

(** ** Structural lemmas *)
Lemma mseq_single ps f w : mseq ps [f] w <-> mfac ps f w.
Proof.
  split; intros H.
  - inversion H as [|f' fs u v Hf Hs]; subst. inversion Hs; subst. rewrite app_nil_r. exact Hf.
  - rewrite <- (app_nil_r w). constructor; [exact H|constructor].
Qed.

Lemma mseq_app ps a u : mseq ps a u -> forall b v, mseq ps b v -> mseq ps (a ++ b) (u ++ v).
Proof.
  induction 1 as [|f fs u v Hf Hs IH]; intros b v' Hb; simpl; [exact Hb|].
  rewrite <- app_assoc. constructor; [exact Hf|]. apply IH. exact Hb.
Qed.

Lemma mseq_app_inv ps a : forall b w, mseq ps (a ++ b) w ->
  exists u v, w = u ++ v /\ mseq ps a u /\ mseq ps b v.
Proof.
  induction a as [|f a IH]; intros b w H; simpl in H.
  - exists [], w. repeat split; [constructor|exact H].
  - inversion H as [|f' fs u v Hf Hs]; subst.
    destruct (IH _ _ Hs) as (u' & v' & -> & Hu & Hv).
    exists (u ++ u'), v'. rewrite app_assoc. repeat split; [|exact Hv].
    constructor; assumption.
Qed.

Lemma mseq_cons_inv ps f fs w : mseq ps (f :: fs) w ->
  exists u v, w = u ++ v /\ mfac ps f u /\ mseq ps fs v.
Proof. intros H. inversion H; subst. eauto. Qed.

Lemma mseq_nil_inv ps w : mseq ps [] w -> w = [].
Proof. intros H. inversion H. reflexivity. Qed.

Lemma malts_inv ps b w : malts ps b w -> exists a, In a b /\ mseq ps a w.
Proof. intros H. inversion H; subst. eauto. Qed.

Lemma malts_single ps a w : malts ps [a] w <-> mseq ps a w.
Proof.
  split; intros H.
  - apply malts_inv in H as (a' & [<-|[]] & H). exact H.
  - econstructor; [left; reflexivity|exact H].
Qed.

Lemma malts_cons ps a b w : malts ps (a :: b) w <-> mseq ps a w \/ malts ps b w.
Proof.
  split.
  - intros H. apply malts_inv in H as (a' & [<-|Hin] & H); [left; exact H|right].
    econstructor; eauto.
  - intros [H|H].
    + econstructor; [left; reflexivity|exact H].
    + apply malts_inv in H as (a' & Hin & H). econstructor; [right; exact Hin|exact H].
Qed.

Lemma mfac_N_inv ps a w : mfac ps (FN a) w -> exists b, In (a, b) ps /\ malts ps b w.
Proof. intros H. inversion H; subst. eauto. Qed.

Lemma mfac_G_inv ps b w : mfac ps (FGroup b) w -> malts ps b w.
Proof. intros H. inversion H; subst. assumption. Qed.

Lemma mfac_O_inv ps b w : mfac ps (FOpt b) w -> w = [] \/ malts ps b w.
Proof. intros H. inversion H; subst; [left; reflexivity|right; assumption]. Qed.

Lemma mfac_T_inv ps t w : mfac ps (FT t) w -> w = [t].
Proof. intros H. inversion H; subst. reflexivity. Qed.

(** A repetition matches exactly the concatenations of finitely many matches of its body. *)
Lemma rep_concat ps b w :
  mfac ps (FRep b) w <-> exists ws, w = concat ws /\ Forall (malts ps b) ws.
Proof.
  split.
  - intros H. remember (FRep b) as f eqn:E. revert b E.
    induction H as [| | | | |b'|b' u v Hu Hv IH]; intros c E; try discriminate.
    + exists []. split; [reflexivity|constructor].
    + inversion E; subst b'. destruct (IH c eq_refl) as (ws & -> & Hws).
      exists (u :: ws). split; [reflexivity|]. constructor; assumption.
  - intros (ws & -> & Hws). induction Hws as [|u ws Hu _ IH]; simpl.
    + constructor.
    + constructor; assumption.
Qed.

Lemma rep_mono ps ps' b b' :
  (forall w, malts ps b w -> malts ps' b' w) ->
  forall w, mfac ps (FRep b) w -> mfac ps' (FRep b') w.
Proof.
  intros Hm w H. apply rep_concat in H as (ws & -> & Hws). apply rep_concat.
  exists ws. split; [reflexivity|]. eapply Forall_impl; [|exact Hws]. exact Hm.
Qed.

Lemma rep_snoc ps b u v : mfac ps (FRep b) u -> malts ps b v -> mfac ps (FRep b) (u ++ v).
Proof.
  intros Hu Hv. apply rep_concat in Hu as (ws & -> & Hws). apply rep_concat.
  exists (ws ++ [v]). split.
  - rewrite concat_app. simpl. rewrite app_nil_r. reflexivity.
  - apply Forall_app. split; [exact Hws|]. constructor; [exact Hv|constructor].
Qed.

(** ** Grammar inclusion (engine for rewrites that introduce no non-terminal) *)
Lemma mseq_incl_gen ps ps' :
  (forall a b, In (a, b) ps -> forall w, malts ps' b w -> mfac ps' (FN a) w) ->
  (forall fs w, mseq ps fs w -> mseq ps' fs w) /\
  (forall f w, mfac ps f w -> mfac ps' f w) /\
  (forall b w, malts ps b w -> malts ps' b w).
Proof.
  intros Hp. apply ematch_mutind.
  - constructor.
  - intros f fs u v _ Hf _ Hs. constructor; assumption.
  - constructor.
  - intros a b w Hin _ Hb. exact (Hp a b Hin w Hb).
  - intros b w _ Hb. constructor. exact Hb.
  - constructor.
  - intros b w _ Hb. apply mf_O1. exact Hb.
  - constructor.
  - intros b u v _ Hu _ Hv. constructor; assumption.
  - intros b a w Hin _ Ha. econstructor; eauto.
Qed.

Lemma mseq_incl ps ps' :
  (forall p, In p ps -> In p ps') ->
  (forall fs w, mseq ps fs w -> mseq ps' fs w) /\
  (forall f w, mfac ps f w -> mfac ps' f w) /\
  (forall b w, malts ps b w -> malts ps' b w).
Proof.
  intros Hi. apply mseq_incl_gen. intros a b Hin w Hb. econstructor; [apply Hi; exact Hin|exact Hb].
Qed.

(** ** Substitution of a factor for a non-terminal, freshness, bounds *)
Fixpoint subst (X : N) (F : factor) (f : factor) : factor :=
  match f with
  | FT t => FT t
  | FN a => if N.eqb a X then F else FN a
  | FGroup b => FGroup (map (map (subst X F)) b)
  | FOpt b => FOpt (map (map (subst X F)) b)
  | FRep b => FRep (map (map (subst X F)) b)
  end.
Definition subst_seq X F (a : list factor) := map (subst X F) a.
Definition subst_alts X F (b : alts) : alts := map (map (subst X F)) b.

(** [fbound n f]: every non-terminal occurring in [f] (at any depth) is below [n]. *)
Fixpoint fbound (n : N) (f : factor) : bool :=
  match f with
  | FT _ => true
  | FN a => N.ltb a n
  | FGroup b => forallb (forallb (fbound n)) b
  | FOpt b => forallb (forallb (fbound n)) b
  | FRep b => forallb (forallb (fbound n)) b
  end.
Definition sbound n (a : list factor) : bool := forallb (fbound n) a.
Definition abound n (b : alts) : bool := forallb (forallb (fbound n)) b.
Definition pbound n (p : eprod) : bool := N.ltb (fst p) n && abound n (snd p).
Definition gbound n (ps : list eprod) : bool := forallb (pbound n) ps.

(** [xfree X f]: [X] does not occur in [f]. *)
Fixpoint xfree (X : N) (f : factor) : bool :=
  match f with
  | FT _ => true
  | FN a => negb (N.eqb a X)
  | FGroup b => forallb (forallb (xfree X)) b
  | FOpt b => forallb (forallb (xfree X)) b
  | FRep b => forallb (forallb (xfree X)) b
  end.
Definition sfree X (a : list factor) : bool := forallb (xfree X) a.
Definition afree X (b : alts) : bool := forallb (forallb (xfree X)) b.
Definition pfree X (p : eprod) : bool := negb (N.eqb (fst p) X) && afree X (snd p).
Definition gfree X (ps : list eprod) : bool := forallb (pfree X) ps.

Lemma bound_free n X : (n <= X)%N ->
  (forall f, fbound n f = true -> xfree X f = true) /\
  (forall a, sbound n a = true -> sfree X a = true) /\
  (forall b, abound n b = true -> afree X b = true).
Proof.
  intros Hle. apply factor_mutind; simpl; try (intros; reflexivity); try (intros b IH H; exact (IH H)).
  - intros a H. apply N.ltb_lt in H. apply negb_true_iff. apply N.eqb_neq. lia.
  - intros f fs IHf IHs H. apply andb_prop in H as [H1 H2]. rewrite (IHf H1). exact (IHs H2).
  - intros a b IHa IHb H. apply andb_prop in H as [H1 H2]. unfold sfree in IHa. rewrite (IHa H1).
    exact (IHb H2).
Qed.

Lemma gbound_gfree n X ps : (n <= X)%N -> gbound n ps = true -> gfree X ps = true.
Proof.
  intros Hle H. unfold gbound, gfree in *. rewrite forallb_forall in *. intros p Hp.
  specialize (H p Hp). unfold pbound, pfree in *. apply andb_prop in H as [H1 H2].
  apply N.ltb_lt in H1. apply andb_true_intro. split.
  - apply negb_true_iff, N.eqb_neq. lia.
  - exact (proj2 (proj2 (bound_free n X Hle)) _ H2).
Qed.

Lemma bound_mono n m : (n <= m)%N ->
  (forall f, fbound n f = true -> fbound m f = true) /\
  (forall a, sbound n a = true -> sbound m a = true) /\
  (forall b, abound n b = true -> abound m b = true).
Proof.
  intros Hle. apply factor_mutind; simpl; try (intros; reflexivity); try (intros b IH H; exact (IH H)).
  - intros a H. apply N.ltb_lt in H. apply N.ltb_lt. lia.
  - intros f fs IHf IHs H. apply andb_prop in H as [H1 H2]. rewrite (IHf H1). exact (IHs H2).
  - intros a b IHa IHb H. apply andb_prop in H as [H1 H2]. unfold sbound in IHa. rewrite (IHa H1).
    exact (IHb H2).
Qed.

Lemma gbound_mono n m ps : (n <= m)%N -> gbound n ps = true -> gbound m ps = true.
Proof.
  intros Hle H. unfold gbound in *. rewrite forallb_forall in *. intros p Hp.
  specialize (H p Hp). unfold pbound in *. apply andb_prop in H as [H1 H2].
  apply N.ltb_lt in H1. apply andb_true_intro. split.
  - apply N.ltb_lt. lia.
  - exact (proj2 (proj2 (bound_mono n m Hle)) _ H2).
Qed.

Lemma subst_free X F :
  (forall f, xfree X f = true -> subst X F f = f) /\
  (forall a, sfree X a = true -> subst_seq X F a = a) /\
  (forall b, afree X b = true -> subst_alts X F b = b).
Proof.
  apply factor_mutind; simpl; try (intros; reflexivity).
  - intros a H. apply negb_true_iff in H. rewrite H. reflexivity.
  - intros b IH H. f_equal. exact (IH H).
  - intros b IH H. f_equal. exact (IH H).
  - intros b IH H. f_equal. exact (IH H).
  - intros f fs IHf IHs H. apply andb_prop in H as [H1 H2]. rewrite (IHf H1).
    f_equal. exact (IHs H2).
  - intros a b IHa IHb H. apply andb_prop in H as [H1 H2]. unfold subst_seq in IHa.
    rewrite (IHa H1). f_equal. exact (IHb H2).
Qed.

(** ** Definitional extension *)
Section Ext.
  Variables (X : N) (F : factor).
  Let sb := subst X F.
  Let sbs := subst_seq X F.
  Let sba := subst_alts X F.

  (** Backward direction: a derivation in [ps'] is a derivation in [ps] after substituting [F]
      for [X], provided every production of [ps'] is justified in [ps] after substitution. *)
  Lemma ext_back ps ps' :
    (forall a b, In (a, b) ps' -> forall w, malts ps (sba b) w -> mfac ps (sb (FN a)) w) ->
    (forall fs w, mseq ps' fs w -> mseq ps (sbs fs) w) /\
    (forall f w, mfac ps' f w -> mfac ps (sb f) w) /\
    (forall b w, malts ps' b w -> malts ps (sba b) w).
  Proof.
    intros Hp. apply ematch_mutind.
    - constructor.
    - intros f fs u v _ Hf _ Hs. simpl. constructor; assumption.
    - constructor.
    - intros a b w Hin _ Hb. exact (Hp a b Hin w Hb).
    - intros b w _ Hb. simpl. constructor. exact Hb.
    - simpl. constructor.
    - intros b w _ Hb. simpl. apply mf_O1. exact Hb.
    - simpl. constructor.
    - intros b u v _ Hu _ Hv. simpl. constructor; assumption.
    - intros b a w Hin _ Ha. econstructor; [|exact Ha].
      unfold sba, subst_alts. apply in_map. exact Hin.
  Qed.

  (** Monotonicity: if [X] generates everything [F] does, un-substituting is sound. *)
  Lemma ext_unsubst ps :
    (forall w, mfac ps F w -> mfac ps (FN X) w) ->
    (forall f w, mfac ps (sb f) w -> mfac ps f w) /\
    (forall a w, mseq ps (sbs a) w -> mseq ps a w) /\
    (forall b w, malts ps (sba b) w -> malts ps b w).
  Proof.
    intros HF. apply factor_mutind.
    - intros t w H. exact H.
    - intros a w H. unfold sb in H. simpl in H. destruct (N.eqb_spec a X) as [->|Hne].
      + apply HF. exact H.
      + exact H.
    - intros b IH w H. apply mfac_G_inv in H. constructor. apply IH. exact H.
    - intros b IH w H. apply mfac_O_inv in H as [->|H]; [constructor|].
      apply mf_O1. apply IH. exact H.
    - intros b IH w H. revert w H. apply rep_mono. exact IH.
    - intros w H. exact H.
    - intros f fs IHf IHs w H. apply mseq_cons_inv in H as (u & v & -> & Hu & Hv).
      constructor; [apply IHf; exact Hu|apply IHs; exact Hv].
    - intros w H. apply malts_inv in H as (a & [] & _).
    - intros a b IHa IHb w H. change (sba (a :: b)) with (sbs a :: sba b) in H.
      apply malts_cons in H. apply malts_cons. destruct H as [H|H]; [left; apply IHa|right; apply IHb]; exact H.
  Qed.

  (** The extension theorem.  [ps'] is [ps] with some occurrences of [F] replaced by the fresh
      [X] plus productions for [X]. *)
  Theorem ext_preserves ps ps' :
    xfree X F = true ->
    (forall a b, In (a, b) ps' ->
       (a <> X /\ In (a, sba b) ps) \/
       (a = X /\ forall w, malts ps (sba b) w -> mfac ps F w)) ->
    (forall a b, In (a, b) ps -> exists b', In (a, b') ps' /\ sba b' = b) ->
    (forall w, mfac ps' F w -> mfac ps' (FN X) w) ->
    (forall fs w, sfree X fs = true -> (mseq ps fs w <-> mseq ps' fs w)) /\
    (forall w, mfac ps' (FN X) w <-> mfac ps F w).
  Proof.
    intros HFfree H2 H3 H4.
    assert (Hback : forall fs w, mseq ps' fs w -> mseq ps (sbs fs) w).
    { apply ext_back. intros a b Hin w Hb. destruct (H2 a b Hin) as [[Hne Hin']|[-> Hx]].
      - unfold sb. simpl. apply N.eqb_neq in Hne. rewrite Hne. econstructor; eauto.
      - unfold sb. simpl. rewrite N.eqb_refl. apply Hx. exact Hb. }
    assert (Hfwd : forall fs w, mseq ps fs w -> mseq ps' fs w).
    { apply mseq_incl_gen. intros a b Hin w Hb. destruct (H3 a b Hin) as (b' & Hin' & <-).
      econstructor; [exact Hin'|]. apply (proj2 (proj2 (ext_unsubst ps' H4))). exact Hb. }
    split.
    - intros fs w Hfree. split; [apply Hfwd|]. intros H. apply Hback in H.
      unfold sbs in H. rewrite (proj1 (proj2 (subst_free X F)) fs Hfree) in H. exact H.
    - intros w. split; intros H.
      + apply mseq_single in H. apply Hback in H. unfold sbs, subst_seq in H. simpl in H.
        rewrite N.eqb_refl in H. apply mseq_single in H. exact H.
      + apply H4. apply mseq_single. apply Hfwd. apply mseq_single. exact H.
  Qed.
End Ext.

(** ** Group-free EBNF as a [cfg] *)
Definition sym_of (f : factor) : option sym :=
  match f with FT t => Some (T t) | FN a => Some (NT a) | _ => None end.
Definition fac_of (s : sym) : factor := match s with T t => FT t | NT a => FN a end.

Fixpoint syms_of (a : list factor) : option (list sym) :=
  match a with
  | [] => Some []
  | f :: r => match sym_of f, syms_of r with
              | Some s, Some ss => Some (s :: ss)
              | _, _ => None
              end
  end.

Fixpoint prods_of_alts (a : N) (b : alts) : option (list prod) :=
  match b with
  | [] => Some []
  | alt :: b' => match syms_of alt, prods_of_alts a b' with
                 | Some r, Some l => Some (mkProd a r :: l)
                 | _, _ => None
                 end
  end.

(** One [prod] per alternative, in order; [None] if a group/optional/repetition is left. *)
Fixpoint to_prods (ps : list eprod) : option (list prod) :=
  match ps with
  | [] => Some []
  | (a, b) :: r => match prods_of_alts a b, to_prods r with
                   | Some l1, Some l2 => Some (l1 ++ l2)
                   | _, _ => None
                   end
  end.

Definition to_cfg (s : N) (ps : list eprod) : option cfg :=
  match to_prods ps with Some l => Some (mkCfg s l) | None => None end.

Lemma syms_of_some a : forall r, syms_of a = Some r -> a = map fac_of r.
Proof.
  induction a as [|f a IH]; intros r H; simpl in H.
  - inversion H. reflexivity.
  - destruct (sym_of f) as [s|] eqn:Es; [|discriminate].
    destruct (syms_of a) as [ss|] eqn:Ea; [|discriminate]. inversion H; subst r. simpl.
    rewrite <- (IH ss eq_refl). f_equal.
    destruct f; simpl in Es; inversion Es; reflexivity.
Qed.

Lemma syms_of_map r : syms_of (map fac_of r) = Some r.
Proof.
  induction r as [|s r IH]; simpl; [reflexivity|]. rewrite IH. destruct s; reflexivity.
Qed.

Lemma prods_of_alts_in a b : forall l, prods_of_alts a b = Some l ->
  forall p, In p l <-> exists alt, In alt b /\ syms_of alt = Some (rhs p) /\ lhs p = a.
Proof.
  induction b as [|alt b IH]; intros l H p; simpl in H.
  - inversion H; subst l. split; [intros []|intros (alt & [] & _)].
  - destruct (syms_of alt) as [r|] eqn:Er; [|discriminate].
    destruct (prods_of_alts a b) as [l'|] eqn:El; [|discriminate]. inversion H; subst l.
    split.
    + intros [<-|Hin].
      * exists alt. simpl. repeat split; [left; reflexivity|exact Er].
      * apply (IH l' eq_refl) in Hin as (alt' & Hin & Hs & Hl). exists alt'.
        repeat split; [right; exact Hin|exact Hs|exact Hl].
    + intros (alt' & [<-|Hin] & Hs & Hl).
      * left. destruct p as [pa pr]. simpl in *. rewrite Er in Hs. inversion Hs. subst. reflexivity.
      * right. apply (IH l' eq_refl). exists alt'. repeat split; assumption.
Qed.

Lemma to_prods_in ps : forall l, to_prods ps = Some l ->
  forall p, In p l <->
    exists b alt, In (lhs p, b) ps /\ In alt b /\ syms_of alt = Some (rhs p).
Proof.
  induction ps as [|[a b] ps IH]; intros l H p; simpl in H.
  - inversion H; subst l. split; [intros []|intros (b & alt & [] & _)].
  - destruct (prods_of_alts a b) as [l1|] eqn:E1; [|discriminate].
    destruct (to_prods ps) as [l2|] eqn:E2; [|discriminate]. inversion H; subst l.
    rewrite in_app_iff. rewrite (prods_of_alts_in a b l1 E1 p). rewrite (IH l2 eq_refl p).
    split.
    + intros [(alt & Hin & Hs & Hl)|(b' & alt & Hin & Hin' & Hs)].
      * exists b, alt. subst a. repeat split; [left; reflexivity|exact Hin|exact Hs].
      * exists b', alt. repeat split; [right; exact Hin|exact Hin'|exact Hs].
    + intros (b' & alt & [E|Hin] & Hin' & Hs).
      * inversion E; subst. left. exists alt. repeat split; assumption.
      * right. exists b', alt. repeat split; assumption.
Qed.

(** All alternatives of a translatable grammar consist of atoms. *)
Lemma to_prods_flat ps l : to_prods ps = Some l ->
  forall a b alt, In (a, b) ps -> In alt b -> exists r, syms_of alt = Some r.
Proof.
  revert l. induction ps as [|[a0 b0] ps IH]; intros l H a b alt Hin Halt; [destruct Hin|].
  simpl in H. destruct (prods_of_alts a0 b0) as [l1|] eqn:E1; [|discriminate].
  destruct (to_prods ps) as [l2|] eqn:E2; [|discriminate].
  destruct Hin as [E|Hin]; [|exact (IH l2 eq_refl a b alt Hin Halt)].
  inversion E; subst a0 b0. clear -E1 Halt. revert l1 E1.
  induction b as [|alt' b IHb]; intros l1 E1; [destruct Halt|]. simpl in E1.
  destruct (syms_of alt') as [r|] eqn:Er; [|discriminate].
  destruct (prods_of_alts a b) as [l'|] eqn:El; [|discriminate].
  destruct Halt as [<-|Halt]; [eauto|exact (IHb Halt l' eq_refl)].
Qed.

Theorem to_cfg_derives s ps l : to_prods ps = Some l ->
  forall alpha w, derives (mkCfg s l) alpha w <-> mseq ps (map fac_of alpha) w.
Proof.
  intros Hl alpha w. split.
  - induction 1 as [|t alpha w H IH|a p alpha u v Hin Hlhs Hr IHr Ha IHa]; simpl.
    + constructor.
    + change (t :: w) with ([t] ++ w). constructor; [constructor|exact IH].
    + constructor; [|exact IHa]. simpl in Hin.
      apply (to_prods_in ps l Hl p) in Hin as (b & alt & Hin & Halt & Hs).
      rewrite Hlhs in Hin. econstructor; [exact Hin|]. econstructor; [exact Halt|].
      rewrite (syms_of_some alt _ Hs). exact IHr.
  - intros H. revert alpha w H.
    assert (Hall :
      (forall fs w, mseq ps fs w -> forall alpha, fs = map fac_of alpha -> derives (mkCfg s l) alpha w) /\
      (forall f w, mfac ps f w -> forall x, f = fac_of x -> derives (mkCfg s l) [x] w) /\
      (forall b w, malts ps b w -> forall a, In (a, b) ps -> derives (mkCfg s l) [NT a] w)).
    { apply ematch_mutind.
      - intros [|x alpha] E; [constructor|discriminate].
      - intros f fs u v _ IHf _ IHs [|x alpha] E; [discriminate|]. simpl in E. inversion E; subst.
        apply (derives_app _ [x] u (IHf x eq_refl) alpha v (IHs alpha eq_refl)).
      - intros t [t'|a] E; simpl in E; inversion E; subst. constructor. constructor.
      - intros a b w0 Hin _ IHb [t'|a'] E; simpl in E; inversion E; subst. apply IHb. exact Hin.
      - intros b w0 _ _ [t|a] E; discriminate.
      - intros b [t|a] E; discriminate.
      - intros b w0 _ _ [t|a] E; discriminate.
      - intros b [t|a] E; discriminate.
      - intros b u v _ _ _ _ [t|a] E; discriminate.
      - intros b alt w0 Halt _ IHs a Hin.
        destruct (to_prods_flat ps l Hl a b alt Hin Halt) as (r & Hr).
        apply derives_single. exists (mkProd a r). simpl. repeat split.
        + apply (to_prods_in ps l Hl). simpl. exists b, alt. repeat split; assumption.
        + apply IHs. apply syms_of_some. exact Hr. }
    intros alpha w H. exact (proj1 Hall _ w H alpha eq_refl).
Qed.

(** ** Locating a top-level factor (first production, first alternative, first factor) *)
Record loc := mkLoc {
  l_pre : list eprod; l_lhs : N; l_b1 : alts; l_s1 : list factor;
  l_f : factor;
  l_s2 : list factor; l_b2 : alts; l_post : list eprod }.

(** Rebuild the production list with [mid] in place of the located factor and the productions
    [news] inserted directly after the rewritten production. *)
Definition unloc (l : loc) (mid : list factor) (news : list eprod) : list eprod :=
  l_pre l ++ (l_lhs l, l_b1 l ++ (l_s1 l ++ mid ++ l_s2 l) :: l_b2 l) :: news ++ l_post l.

Section Find.
  Variable pred : factor -> bool.

  Fixpoint find_seq (a : list factor) : option (list factor * factor * list factor) :=
    match a with
    | [] => None
    | f :: r => if pred f then Some ([], f, r)
                else match find_seq r with
                     | Some (s1, g, s2) => Some (f :: s1, g, s2)
                     | None => None
                     end
    end.

  Fixpoint find_alts (b : alts) : option (alts * (list factor * factor * list factor) * alts) :=
    match b with
    | [] => None
    | a :: r => match find_seq a with
                | Some t => Some ([], t, r)
                | None => match find_alts r with
                          | Some (b1, t, b2) => Some (a :: b1, t, b2)
                          | None => None
                          end
                end
    end.

  Fixpoint find_prods (ps : list eprod) : option loc :=
    match ps with
    | [] => None
    | (a, b) :: r =>
        match find_alts b with
        | Some (b1, (s1, g, s2), b2) => Some (mkLoc [] a b1 s1 g s2 b2 r)
        | None => match find_prods r with
                  | Some l => Some (mkLoc ((a, b) :: l_pre l) (l_lhs l) (l_b1 l) (l_s1 l) (l_f l)
                                          (l_s2 l) (l_b2 l) (l_post l))
                  | None => None
                  end
        end
    end.

  Lemma find_seq_spec a : forall s1 g s2, find_seq a = Some (s1, g, s2) ->
    a = s1 ++ g :: s2 /\ pred g = true /\ forallb (fun f => negb (pred f)) s1 = true.
  Proof.
    induction a as [|f a IH]; intros s1 g s2 H; simpl in H; [discriminate|].
    destruct (pred f) eqn:Ep.
    - inversion H; subst. repeat split. exact Ep.
    - destruct (find_seq a) as [[[s1' g'] s2']|]; [|discriminate]. inversion H; subst.
      destruct (IH _ _ _ eq_refl) as (-> & Hg & Hs). repeat split; [exact Hg|].
      simpl. rewrite Ep. exact Hs.
  Qed.

  Lemma find_seq_none a : find_seq a = None -> forallb (fun f => negb (pred f)) a = true.
  Proof.
    induction a as [|f a IH]; intros H; simpl in *; [reflexivity|].
    destruct (pred f); [discriminate|]. destruct (find_seq a) as [[[? ?] ?]|]; [discriminate|].
    exact (IH eq_refl).
  Qed.

  Lemma find_alts_spec b : forall b1 s1 g s2 b2, find_alts b = Some (b1, (s1, g, s2), b2) ->
    b = b1 ++ (s1 ++ g :: s2) :: b2 /\ pred g = true.
  Proof.
    induction b as [|a b IH]; intros b1 s1 g s2 b2 H; simpl in H; [discriminate|].
    destruct (find_seq a) as [[[s1' g'] s2']|] eqn:Ea.
    - inversion H; subst. apply find_seq_spec in Ea as (-> & Hg & _). split; [reflexivity|exact Hg].
    - destruct (find_alts b) as [[[b1' [[s1' g'] s2']] b2']|]; [|discriminate]. inversion H; subst.
      destruct (IH _ _ _ _ _ eq_refl) as (-> & Hg). split; [reflexivity|exact Hg].
  Qed.

  Lemma find_alts_none b : find_alts b = None ->
    forallb (forallb (fun f => negb (pred f))) b = true.
  Proof.
    induction b as [|a b IH]; intros H; simpl in *; [reflexivity|].
    destruct (find_seq a) as [t|] eqn:Ea; [discriminate|].
    destruct (find_alts b) as [[[? ?] ?]|]; [discriminate|].
    rewrite (find_seq_none a Ea). exact (IH eq_refl).
  Qed.

  Lemma find_prods_spec ps : forall l, find_prods ps = Some l ->
    ps = unloc l [l_f l] [] /\ pred (l_f l) = true.
  Proof.
    induction ps as [|[a b] ps IH]; intros l H; simpl in H; [discriminate|].
    destruct (find_alts b) as [[[b1 [[s1 g] s2]] b2]|] eqn:Eb.
    - inversion H; subst l. apply find_alts_spec in Eb as (-> & Hg). split; [reflexivity|exact Hg].
    - destruct (find_prods ps) as [l'|]; [|discriminate]. inversion H; subst l.
      destruct (IH l' eq_refl) as (E & Hg). split; [|exact Hg].
      unfold unloc in *. simpl. f_equal. exact E.
  Qed.

  Lemma find_prods_none ps : find_prods ps = None ->
    forall a b, In (a, b) ps -> forallb (forallb (fun f => negb (pred f))) b = true.
  Proof.
    induction ps as [|[a0 b0] ps IH]; intros H a b Hin; [destruct Hin|]. simpl in H.
    destruct (find_alts b0) as [[[b1 [[s1 g] s2]] b2]|] eqn:Eb; [discriminate|].
    destruct (find_prods ps) as [l'|]; [discriminate|].
    destruct Hin as [E|Hin]; [inversion E; subst; exact (find_alts_none _ Eb)|].
    exact (IH eq_refl a b Hin).
  Qed.
End Find.

(** ** Freshness/bounds of rebuilt production lists *)
Lemma gfree_app X p q : gfree X (p ++ q) = gfree X p && gfree X q.
Proof. apply forallb_app. Qed.
Lemma gbound_app n p q : gbound n (p ++ q) = gbound n p && gbound n q.
Proof. apply forallb_app. Qed.
Lemma afree_app X p q : afree X (p ++ q) = afree X p && afree X q.
Proof. apply forallb_app. Qed.
Lemma abound_app n p q : abound n (p ++ q) = abound n p && abound n q.
Proof. apply forallb_app. Qed.
Lemma sfree_app X p q : sfree X (p ++ q) = sfree X p && sfree X q.
Proof. apply forallb_app. Qed.
Lemma sbound_app n p q : sbound n (p ++ q) = sbound n p && sbound n q.
Proof. apply forallb_app. Qed.

Lemma gfree_unloc X l mid news :
  gfree X (unloc l mid news) =
  gfree X (l_pre l) &&
  (negb (N.eqb (l_lhs l) X) &&
   (afree X (l_b1 l) && ((sfree X (l_s1 l) && (sfree X mid && sfree X (l_s2 l))) && afree X (l_b2 l)))) &&
  (gfree X news && gfree X (l_post l)).
Proof.
  unfold unloc. rewrite gfree_app. cbn [gfree forallb]. fold (gfree X (news ++ l_post l)).
  rewrite gfree_app. unfold pfree. cbn [fst snd]. rewrite afree_app. cbn [afree forallb].
  fold (afree X (l_b2 l)). fold (sfree X (l_s1 l ++ mid ++ l_s2 l)). rewrite !sfree_app.
  rewrite <- !andb_assoc. reflexivity.
Qed.

Lemma gbound_unloc n l mid news :
  gbound n (unloc l mid news) =
  gbound n (l_pre l) &&
  (N.ltb (l_lhs l) n &&
   (abound n (l_b1 l) && ((sbound n (l_s1 l) && (sbound n mid && sbound n (l_s2 l))) && abound n (l_b2 l)))) &&
  (gbound n news && gbound n (l_post l)).
Proof.
  unfold unloc. rewrite gbound_app. cbn [gbound forallb]. fold (gbound n (news ++ l_post l)).
  rewrite gbound_app. unfold pbound. cbn [fst snd]. rewrite abound_app. cbn [abound forallb].
  fold (abound n (l_b2 l)). fold (sbound n (l_s1 l ++ mid ++ l_s2 l)). rewrite !sbound_app.
  rewrite <- !andb_assoc. reflexivity.
Qed.

Lemma gfree_unloc_iff X l mid news :
  gfree X (unloc l mid news) = true <->
  gfree X (l_pre l) = true /\ l_lhs l <> X /\ afree X (l_b1 l) = true /\ sfree X (l_s1 l) = true /\
  sfree X mid = true /\ sfree X (l_s2 l) = true /\ afree X (l_b2 l) = true /\
  gfree X news = true /\ gfree X (l_post l) = true.
Proof.
  rewrite gfree_unloc. rewrite !andb_true_iff, negb_true_iff, N.eqb_neq. tauto.
Qed.

Lemma gbound_unloc_iff n l mid news :
  gbound n (unloc l mid news) = true <->
  gbound n (l_pre l) = true /\ (l_lhs l < n)%N /\ abound n (l_b1 l) = true /\ sbound n (l_s1 l) = true /\
  sbound n mid = true /\ sbound n (l_s2 l) = true /\ abound n (l_b2 l) = true /\
  gbound n news = true /\ gbound n (l_post l) = true.
Proof.
  rewrite gbound_unloc. rewrite !andb_true_iff, N.ltb_lt. tauto.
Qed.

Lemma sfree_single X f : sfree X [f] = xfree X f.
Proof. cbn [sfree forallb]. apply andb_true_r. Qed.
Lemma sbound_single n f : sbound n [f] = fbound n f.
Proof. cbn [sbound forallb]. apply andb_true_r. Qed.

Lemma gfree_in X ps : gfree X ps = true ->
  forall a b, In (a, b) ps -> a <> X /\ afree X b = true.
Proof.
  intros H a b Hin. unfold gfree in H. rewrite forallb_forall in H. specialize (H _ Hin).
  unfold pfree in H. cbn [fst snd] in H. apply andb_prop in H as [H1 H2].
  split; [apply N.eqb_neq, negb_true_iff; exact H1|exact H2].
Qed.

Lemma subst_alts_app X F p q : subst_alts X F (p ++ q) = subst_alts X F p ++ subst_alts X F q.
Proof. apply map_app. Qed.
Lemma subst_seq_app X F p q : subst_seq X F (p ++ q) = subst_seq X F p ++ subst_seq X F q.
Proof. apply map_app. Qed.

Lemma subst_alts_free X F b : afree X b = true -> subst_alts X F b = b.
Proof. apply (subst_free X F). Qed.
Lemma subst_seq_free X F a : sfree X a = true -> subst_seq X F a = a.
Proof. apply (subst_free X F). Qed.
Lemma subst_fac_free X F f : xfree X f = true -> subst X F f = f.
Proof. apply (subst_free X F). Qed.

(** ** Introducing a fresh non-terminal for (occurrences of) a factor inside one production *)
Theorem intro_preserves X F pre a b b' news post :
  gfree X (pre ++ (a, b) :: post) = true ->
  xfree X F = true ->
  subst_alts X F b' = b ->
  (forall x c, In (x, c) news ->
     x = X /\ forall w, malts (pre ++ (a, b) :: post) (subst_alts X F c) w ->
                        mfac (pre ++ (a, b) :: post) F w) ->
  (forall w, mfac (pre ++ (a, b') :: news ++ post) F w ->
             mfac (pre ++ (a, b') :: news ++ post) (FN X) w) ->
  (forall fs w, sfree X fs = true ->
     (mseq (pre ++ (a, b) :: post) fs w <-> mseq (pre ++ (a, b') :: news ++ post) fs w)) /\
  (forall w, mfac (pre ++ (a, b') :: news ++ post) (FN X) w <-> mfac (pre ++ (a, b) :: post) F w).
Proof.
  intros Hfree HF Hb Hnews H4. apply ext_preserves; [exact HF| | |exact H4].
  - intros x c Hin. apply in_app_iff in Hin as [Hin|[E|Hin]]; [| |apply in_app_iff in Hin as [Hin|Hin]].
    + left. destruct (gfree_in X _ Hfree x c) as [Hne Hc]; [apply in_app_iff; left; exact Hin|].
      split; [exact Hne|]. rewrite (subst_alts_free X F c Hc). apply in_app_iff. left. exact Hin.
    + inversion E; subst x c. left.
      destruct (gfree_in X _ Hfree a b) as [Hne _]; [apply in_app_iff; right; left; reflexivity|].
      split; [exact Hne|]. rewrite Hb. apply in_app_iff. right. left. reflexivity.
    + right. exact (Hnews x c Hin).
    + left. destruct (gfree_in X _ Hfree x c) as [Hne Hc]; [apply in_app_iff; right; right; exact Hin|].
      split; [exact Hne|]. rewrite (subst_alts_free X F c Hc). apply in_app_iff. right. right. exact Hin.
  - intros x c Hin. apply in_app_iff in Hin as [Hin|[E|Hin]].
    + exists c. destruct (gfree_in X _ Hfree x c) as [_ Hc]; [apply in_app_iff; left; exact Hin|].
      split; [apply in_app_iff; left; exact Hin|exact (subst_alts_free X F c Hc)].
    + inversion E; subst x c. exists b'. split; [|exact Hb]. apply in_app_iff. right. left. reflexivity.
    + exists c. destruct (gfree_in X _ Hfree x c) as [_ Hc]; [apply in_app_iff; right; right; exact Hin|].
      split; [|exact (subst_alts_free X F c Hc)].
      apply in_app_iff. right. right. apply in_app_iff. right. exact Hin.
Qed.

(** The located (top-level) special case. *)
Lemma subst_loc X F b1 s1 s2 b2 :
  afree X b1 = true -> sfree X s1 = true -> sfree X s2 = true -> afree X b2 = true ->
  subst_alts X F (b1 ++ (s1 ++ [FN X] ++ s2) :: b2) = b1 ++ (s1 ++ [F] ++ s2) :: b2.
Proof.
  intros H1 H2 H3 H4. rewrite subst_alts_app. cbn [subst_alts map].
  fold (subst_alts X F b2). fold (subst_seq X F (s1 ++ [FN X] ++ s2)).
  rewrite !subst_seq_app. rewrite (subst_alts_free X F b1 H1), (subst_alts_free X F b2 H4),
    (subst_seq_free X F s1 H2), (subst_seq_free X F s2 H3).
  cbn [subst_seq map subst]. rewrite N.eqb_refl. reflexivity.
Qed.

Theorem intro_loc_preserves X l news :
  gfree X (unloc l [l_f l] []) = true ->
  (forall x c, In (x, c) news ->
     x = X /\ forall w, malts (unloc l [l_f l] []) (subst_alts X (l_f l) c) w ->
                        mfac (unloc l [l_f l] []) (l_f l) w) ->
  (forall w, mfac (unloc l [FN X] news) (l_f l) w -> mfac (unloc l [FN X] news) (FN X) w) ->
  (forall fs w, sfree X fs = true ->
     (mseq (unloc l [l_f l] []) fs w <-> mseq (unloc l [FN X] news) fs w)) /\
  (forall w, mfac (unloc l [FN X] news) (FN X) w <-> mfac (unloc l [l_f l] []) (l_f l) w).
Proof.
  intros Hfree Hnews H4. pose proof Hfree as Hf. apply gfree_unloc_iff in Hf.
  destruct Hf as (Hpre & Hne & Hb1 & Hs1 & Hmid & Hs2 & Hb2 & _ & Hpost).
  rewrite sfree_single in Hmid.
  unfold unloc in *. cbn [app] in *.
  apply intro_preserves; try assumption.
  apply subst_loc; assumption.
Qed.

(** Unfolding a repetition through a right- or left-recursive non-terminal. *)
Lemma rep_right ps X b :
  mfac ps (FN X) [] ->
  (forall u v, malts ps b u -> mfac ps (FN X) v -> mfac ps (FN X) (u ++ v)) ->
  forall w, mfac ps (FRep b) w -> mfac ps (FN X) w.
Proof.
  intros H0 HS w H. apply rep_concat in H as (ws & -> & Hws).
  induction Hws as [|u ws Hu _ IH]; simpl; [exact H0|]. apply HS; assumption.
Qed.

Lemma rep_left ps X b :
  mfac ps (FN X) [] ->
  (forall u v, mfac ps (FN X) u -> malts ps b v -> mfac ps (FN X) (u ++ v)) ->
  forall w, mfac ps (FRep b) w -> mfac ps (FN X) w.
Proof.
  intros H0 HS w H. apply rep_concat in H as (ws & -> & Hws).
  induction ws as [|v ws IH] using rev_ind; simpl; [exact H0|].
  apply Forall_app in Hws as [Hws Hv]. inversion Hv; subst.
  rewrite concat_app. simpl. rewrite app_nil_r. apply HS; [apply IH; exact Hws|assumption].
Qed.

(** ** A simple EBNF -> BNF translation (not parol's) *)
Definition atomic (f : factor) : bool :=
  match f with FT _ => true | FN _ => true | _ => false end.
Definition nonatomic (f : factor) : bool := negb (atomic f).

(** The alternatives of the non-terminal [X] that stands for [f]. *)
Definition norm_body (X : N) (f : factor) : alts :=
  match f with
  | FGroup b => b
  | FOpt b => [] :: b
  | FRep b => [[]; [FGroup b; FN X]]
  | _ => [[f]]
  end.

(** One step: the first non-atomic top-level factor (first production, first alternative,
    first position) is replaced by the non-terminal [X], whose production is inserted behind. *)
Definition norm_step (X : N) (ps : list eprod) : option (list eprod) :=
  match find_prods nonatomic ps with
  | None => None
  | Some l => Some (unloc l [FN X] [(X, norm_body X (l_f l))])
  end.

Fixpoint norm (fuel : nat) (X : N) (ps : list eprod) : option (list eprod) :=
  match norm_step X ps with
  | None => Some ps
  | Some ps' => match fuel with
                | 0 => None
                | S k => norm k (N.succ X) ps'
                end
  end.

Lemma norm_body_back ps X f : xfree X f = true ->
  forall w, malts ps (subst_alts X f (norm_body X f)) w -> mfac ps f w.
Proof.
  intros Hf w H. destruct f as [t|a|b|b|b]; cbn [norm_body] in H.
  - apply malts_single in H. apply mseq_single in H. exact H.
  - cbn [subst_alts map subst] in H. cbn [xfree] in Hf. apply negb_true_iff in Hf. rewrite Hf in H.
    apply malts_single in H. apply mseq_single in H. exact H.
  - cbn [xfree] in Hf. fold (afree X b) in Hf. rewrite (subst_alts_free X _ b Hf) in H.
    constructor. exact H.
  - cbn [xfree] in Hf. fold (afree X b) in Hf.
    change (subst_alts X (FOpt b) ([] :: b)) with ([] :: subst_alts X (FOpt b) b) in H.
    rewrite (subst_alts_free X _ b Hf) in H. apply malts_cons in H as [H|H].
    + apply mseq_nil_inv in H. subst w. constructor.
    + apply mf_O1. exact H.
  - cbn [xfree] in Hf. fold (afree X b) in Hf.
    cbn [subst_alts map subst] in H. rewrite N.eqb_refl in H. fold (subst_alts X (FRep b) b) in H.
    rewrite (subst_alts_free X _ b Hf) in H. apply malts_cons in H as [H|H].
    + apply mseq_nil_inv in H. subst w. constructor.
    + apply malts_single in H. apply mseq_cons_inv in H as (u & v & -> & Hu & Hv).
      apply mseq_single in Hv. apply mfac_G_inv in Hu. constructor; assumption.
Qed.

Lemma norm_body_fwd ps X f : In (X, norm_body X f) ps ->
  forall w, mfac ps f w -> mfac ps (FN X) w.
Proof.
  intros Hin. destruct f as [t|a|b|b|b]; cbn [norm_body] in Hin.
  - intros w H. econstructor; [exact Hin|]. apply malts_single, mseq_single. exact H.
  - intros w H. econstructor; [exact Hin|]. apply malts_single, mseq_single. exact H.
  - intros w H. apply mfac_G_inv in H. econstructor; eauto.
  - intros w H. econstructor; [exact Hin|]. apply malts_cons.
    apply mfac_O_inv in H as [->|H]; [left; constructor|right; exact H].
  - apply rep_right.
    + econstructor; [exact Hin|]. apply malts_cons. left. constructor.
    + intros u v Hu Hv. econstructor; [exact Hin|]. apply malts_cons. right. apply malts_single.
      constructor; [constructor; exact Hu|]. apply mseq_single. exact Hv.
Qed.

Lemma norm_body_bound X f : fbound X f = true -> abound (N.succ X) (norm_body X f) = true.
Proof.
  intros Hf. apply (proj1 (bound_mono X (N.succ X) ltac:(lia))) in Hf.
  destruct f as [t|a|b|b|b]; cbn [norm_body abound forallb fbound] in *;
    rewrite ?andb_true_r; try exact Hf.
  rewrite Hf. cbn [andb]. apply N.ltb_lt. lia.
Qed.

Lemma norm_step_preserves X ps ps' :
  gbound X ps = true -> norm_step X ps = Some ps' ->
  gbound (N.succ X) ps' = true /\
  forall fs w, sfree X fs = true -> (mseq ps fs w <-> mseq ps' fs w).
Proof.
  intros Hb H. unfold norm_step in H. destruct (find_prods nonatomic ps) as [l|] eqn:El; [|discriminate].
  inversion H; subst ps'. clear H. apply find_prods_spec in El as (E & _).
  assert (Hfree : gfree X ps = true) by (apply (gbound_gfree X X); [lia|exact Hb]).
  split.
  - pose proof Hb as Hb0. rewrite E in Hb0. apply gbound_unloc_iff in Hb0.
    destruct Hb0 as (_ & _ & _ & _ & Hmid0 & _). rewrite sbound_single in Hmid0.
    apply (gbound_mono X (N.succ X)) in Hb; [|lia]. rewrite E in Hb. apply gbound_unloc_iff in Hb.
    destruct Hb as (Hpre & Hlt & Hb1 & Hs1 & Hmid & Hs2 & Hb2 & _ & Hpost).
    apply gbound_unloc_iff. repeat split; try assumption.
    + rewrite sbound_single. cbn [fbound]. apply N.ltb_lt. lia.
    + cbn [gbound forallb pbound fst snd]. rewrite andb_true_r. apply andb_true_intro. split.
      * cbn [fst]. apply N.ltb_lt. lia.
      * cbn [snd]. apply norm_body_bound. exact Hmid0.
  - rewrite E in Hfree |- *. apply (intro_loc_preserves X l [(X, norm_body X (l_f l))] Hfree).
    + intros x c [Ex|[]]. inversion Ex; subst x c. split; [reflexivity|]. apply norm_body_back.
      apply gfree_unloc_iff in Hfree. destruct Hfree as (_ & _ & _ & _ & Hmid & _).
      rewrite sfree_single in Hmid. exact Hmid.
    + apply norm_body_fwd. unfold unloc. apply in_app_iff. right. right. left. reflexivity.
Qed.

Theorem norm_preserves fuel : forall X ps ps',
  gbound X ps = true -> norm fuel X ps = Some ps' ->
  (forall fs w, sbound X fs = true -> (mseq ps fs w <-> mseq ps' fs w)) /\
  find_prods nonatomic ps' = None.
Proof.
  induction fuel as [|k IH]; intros X ps ps' Hb H; simpl in H.
  - destruct (norm_step X ps) as [ps1|] eqn:Es; [discriminate|]. inversion H; subst ps'.
    split; [intros; reflexivity|]. unfold norm_step in Es.
    destruct (find_prods nonatomic ps); [discriminate|reflexivity].
  - destruct (norm_step X ps) as [ps1|] eqn:Es.
    + destruct (norm_step_preserves X ps ps1 Hb Es) as [Hb1 Heq].
      destruct (IH _ _ _ Hb1 H) as [Heq' Hflat]. split; [|exact Hflat].
      intros fs w Hfs. rewrite (Heq fs w).
      * apply Heq'. apply (proj1 (proj2 (bound_mono X (N.succ X) ltac:(lia)))). exact Hfs.
      * apply (proj1 (proj2 (bound_free X X ltac:(lia)))). exact Hfs.
    + inversion H; subst ps'. split; [intros; reflexivity|]. unfold norm_step in Es.
      destruct (find_prods nonatomic ps); [discriminate|reflexivity].
Qed.

(** The least bound of the non-terminals of a grammar. *)
Fixpoint fmax (f : factor) : N :=
  match f with
  | FT _ => 0
  | FN a => N.succ a
  | FGroup b => fold_right (fun a m => N.max (fold_right (fun f m => N.max (fmax f) m) 0 a) m) 0 b
  | FOpt b => fold_right (fun a m => N.max (fold_right (fun f m => N.max (fmax f) m) 0 a) m) 0 b
  | FRep b => fold_right (fun a m => N.max (fold_right (fun f m => N.max (fmax f) m) 0 a) m) 0 b
  end%N.
Definition smax (a : list factor) : N := fold_right (fun f m => N.max (fmax f) m) 0%N a.
Definition amax (b : alts) : N := fold_right (fun a m => N.max (smax a) m) 0%N b.
Definition gmax (ps : list eprod) : N :=
  fold_right (fun p m => N.max (N.max (N.succ (fst p)) (amax (snd p))) m) 0%N ps.

Lemma max_bound :
  (forall f n, (fmax f <= n)%N -> fbound n f = true) /\
  (forall a n, (smax a <= n)%N -> sbound n a = true) /\
  (forall b n, (amax b <= n)%N -> abound n b = true).
Proof.
  apply factor_mutind; cbn [fmax fbound smax amax sbound abound forallb fold_right];
    try (intros; reflexivity).
  - intros a n H. apply N.ltb_lt. lia.
  - intros b IH n H. exact (IH n H).
  - intros b IH n H. exact (IH n H).
  - intros b IH n H. exact (IH n H).
  - intros f fs IHf IHs n H. fold (smax fs) in H. rewrite IHf by lia. apply IHs. lia.
  - intros a b IHa IHb n H. fold (smax a) in H. fold (amax b) in H.
    unfold sbound in IHa. rewrite IHa by lia. apply IHb. lia.
Qed.

Lemma gmax_bound ps : forall n, (gmax ps <= n)%N -> gbound n ps = true.
Proof.
  induction ps as [|[a b] ps IH]; intros n H; [reflexivity|].
  change (gmax ((a, b) :: ps)) with (N.max (N.max (N.succ a) (amax b)) (gmax ps)) in H.
  change (gbound n ((a, b) :: ps)) with ((N.ltb a n && abound n b) && gbound n ps).
  apply andb_true_intro. split; [apply andb_true_intro; split|].
  - apply N.ltb_lt. lia.
  - apply (proj2 (proj2 max_bound)). lia.
  - apply IH. lia.
Qed.

Definition enext (G : egrammar) : N := N.max (N.succ (estart G)) (gmax (eprods G)).

(** [ebnf_to_bnf fuel G]: a [cfg] with the same start symbol in which every non-terminal of [G]
    generates what it generates in [G]; [None] iff [fuel] (number of non-atomic factors removed)
    did not suffice. *)
Definition ebnf_to_bnf (fuel : nat) (G : egrammar) : option cfg :=
  match norm fuel (enext G) (eprods G) with
  | Some ps' => to_cfg (estart G) ps'
  | None => None
  end.

Theorem ebnf_to_bnf_correct fuel G B : ebnf_to_bnf fuel G = Some B ->
  start B = estart G /\
  forall alpha w, sbound (enext G) (map fac_of alpha) = true ->
    (derives B alpha w <-> ematch G (map fac_of alpha) w).
Proof.
  unfold ebnf_to_bnf, to_cfg. intros H.
  destruct (norm fuel (enext G) (eprods G)) as [ps'|] eqn:En; [|discriminate].
  destruct (to_prods ps') as [l|] eqn:El; [|discriminate]. inversion H; subst B. clear H.
  split; [reflexivity|]. intros alpha w Hb.
  assert (Hg : gbound (enext G) (eprods G) = true) by (apply gmax_bound; unfold enext; lia).
  destruct (norm_preserves fuel _ _ _ Hg En) as [Heq _].
  rewrite (to_cfg_derives (estart G) ps' l El). unfold ematch. symmetry. apply Heq. exact Hb.
Qed.

(** ** The EBNF membership oracle *)
Definition emember (fuel : nat) (G : egrammar) (w : list N) : option bool :=
  match ebnf_to_bnf fuel G with
  | Some B => member fuel B w
  | None => None
  end.

Lemma ebnf_to_bnf_lang fuel G B : ebnf_to_bnf fuel G = Some B -> forall w, lang B w <-> elang G w.
Proof.
  intros H w. destruct (ebnf_to_bnf_correct fuel G B H) as [Hs Heq]. unfold lang, elang.
  rewrite Hs. apply (Heq [NT (estart G)] w). cbn [map fac_of sbound forallb fbound].
  rewrite andb_true_r. apply N.ltb_lt. unfold enext. lia.
Qed.

Theorem emember_sound fuel G w : emember fuel G w = Some true -> elang G w.
Proof.
  unfold emember. destruct (ebnf_to_bnf fuel G) as [B|] eqn:E; [|discriminate]. intros H.
  apply (ebnf_to_bnf_lang fuel G B E). exact (member_sound _ _ _ H).
Qed.

Theorem emember_complete fuel G w : emember fuel G w = Some false -> ~ elang G w.
Proof.
  unfold emember. destruct (ebnf_to_bnf fuel G) as [B|] eqn:E; [|discriminate]. intros H He.
  apply (ebnf_to_bnf_lang fuel G B E) in He. exact (member_complete _ _ _ H He).
Qed.

(** Weight of the non-atomic nodes: an upper bound for the number of [norm] steps. *)
Fixpoint fweight (f : factor) : nat :=
  match f with
  | FT _ => 0
  | FN _ => 0
  | FGroup b => 1 + fold_right (fun a m => fold_right (fun f m => fweight f + m) 0 a + m) 0 b
  | FOpt b => 2 + fold_right (fun a m => fold_right (fun f m => fweight f + m) 0 a + m) 0 b
  | FRep b => 2 + fold_right (fun a m => fold_right (fun f m => fweight f + m) 0 a + m) 0 b
  end.
Definition sweight (a : list factor) : nat := fold_right (fun f m => fweight f + m) 0 a.
Definition aweight (b : alts) : nat := fold_right (fun a m => sweight a + m) 0 b.
Definition gweight (ps : list eprod) : nat := fold_right (fun p m => aweight (snd p) + m) 0 ps.

(** Fuel for [emember]: enough for the translation and for the recogniser. *)
Definition emember_fuel (G : egrammar) (w : list N) : nat :=
  let f := S (gweight (eprods G)) in
  match ebnf_to_bnf f G with
  | Some B => Nat.max f (member_fuel B w)
  | None => f
  end.

(** *** [emember_fuel] suffices *)
Lemma fweight_group b : fweight (FGroup b) = 1 + aweight b.
Proof. reflexivity. Qed.
Lemma fweight_opt b : fweight (FOpt b) = 2 + aweight b.
Proof. reflexivity. Qed.
Lemma fweight_rep b : fweight (FRep b) = 2 + aweight b.
Proof. reflexivity. Qed.
Lemma sweight_app p q : sweight (p ++ q) = sweight p + sweight q.
Proof. induction p as [|f p IH]; cbn [app sweight fold_right]; [reflexivity|]. fold (sweight (p ++ q)). fold (sweight p). lia. Qed.
Lemma sweight_cons f p : sweight (f :: p) = fweight f + sweight p.
Proof. reflexivity. Qed.
Lemma aweight_app p q : aweight (p ++ q) = aweight p + aweight q.
Proof. induction p as [|a p IH]; cbn [app aweight fold_right]; [reflexivity|]. fold (aweight (p ++ q)). fold (aweight p). lia. Qed.
Lemma aweight_cons a p : aweight (a :: p) = sweight a + aweight p.
Proof. reflexivity. Qed.
Lemma gweight_app p q : gweight (p ++ q) = gweight p + gweight q.
Proof. induction p as [|a p IH]; cbn [app gweight fold_right]; [reflexivity|]. fold (gweight (p ++ q)). fold (gweight p). lia. Qed.
Lemma gweight_cons a b ps : gweight ((a, b) :: ps) = aweight b + gweight ps.
Proof. reflexivity. Qed.

Lemma gweight_unloc l mid news :
  gweight (unloc l mid news) = gweight (unloc l [] []) + sweight mid + gweight news.
Proof.
  unfold unloc. rewrite !gweight_app, !gweight_cons, !gweight_app.
  rewrite !aweight_app, !aweight_cons, !sweight_app. cbn [gweight fold_right sweight app]. lia.
Qed.

Lemma norm_step_weight X ps ps' : norm_step X ps = Some ps' -> gweight ps' < gweight ps.
Proof.
  unfold norm_step. destruct (find_prods nonatomic ps) as [l|] eqn:El; [|discriminate].
  intros H. inversion H; subst ps'. apply find_prods_spec in El as (E & Hna). rewrite E.
  rewrite (gweight_unloc l [FN X]), (gweight_unloc l [l_f l]), gweight_cons, !sweight_cons.
  cbn [gweight fold_right sweight fweight].
  destruct (l_f l) as [t|a|b|b|b]; try discriminate; cbn [norm_body];
    rewrite ?fweight_group, ?fweight_opt, ?fweight_rep, ?aweight_cons, ?sweight_cons, ?fweight_group;
    cbn [aweight sweight fweight fold_right]; lia.
Qed.

Lemma norm_fuel_suffices fuel : forall X ps, gweight ps <= fuel -> norm fuel X ps <> None.
Proof.
  induction fuel as [|k IH]; intros X ps Hle; cbn [norm];
    destruct (norm_step X ps) as [ps1|] eqn:Es; try discriminate.
  - apply norm_step_weight in Es. lia.
  - apply IH. apply norm_step_weight in Es. lia.
Qed.

Lemma norm_fuel_mono fuel : forall fuel' X ps ps', norm fuel X ps = Some ps' -> fuel <= fuel' ->
  norm fuel' X ps = Some ps'.
Proof.
  induction fuel as [|k IH]; intros fuel' X ps ps' H Hle; cbn [norm] in H.
  - destruct (norm_step X ps) as [ps1|] eqn:Es; [discriminate|].
    destruct fuel'; cbn [norm]; rewrite Es; exact H.
  - destruct (norm_step X ps) as [ps1|] eqn:Es.
    + destruct fuel' as [|k']; [lia|]. cbn [norm]. rewrite Es. apply IH; [exact H|lia].
    + destruct fuel'; cbn [norm]; rewrite Es; exact H.
Qed.

Lemma atomic_syms a : forallb (fun f => negb (nonatomic f)) a = true -> syms_of a <> None.
Proof.
  induction a as [|f a IH]; intros H; cbn [syms_of]; [discriminate|].
  cbn [forallb] in H. apply andb_prop in H as [Hf Ha].
  destruct f; try discriminate; cbn [sym_of]; destruct (syms_of a); try discriminate; exact (IH Ha).
Qed.

Lemma flat_to_prods ps : find_prods nonatomic ps = None -> to_prods ps <> None.
Proof.
  intros H. pose proof (find_prods_none nonatomic ps H) as Hall. clear H.
  induction ps as [|[a b] ps IH]; cbn [to_prods]; [discriminate|].
  assert (Hb : prods_of_alts a b <> None).
  { pose proof (Hall a b (or_introl eq_refl)) as Hb. clear -Hb.
    induction b as [|alt b IHb]; cbn [prods_of_alts]; [discriminate|].
    cbn [forallb] in Hb. apply andb_prop in Hb as [H1 H2].
    pose proof (atomic_syms alt H1). destruct (syms_of alt); [|congruence].
    pose proof (IHb H2). destruct (prods_of_alts a b); [discriminate|congruence]. }
  assert (Hps : to_prods ps <> None) by (apply IH; intros a' b' Hin; apply (Hall a' b'); right; exact Hin).
  destruct (prods_of_alts a b); [|congruence]. destruct (to_prods ps); [discriminate|congruence].
Qed.

Lemma ebnf_to_bnf_fuel fuel G : gweight (eprods G) <= fuel -> ebnf_to_bnf fuel G <> None.
Proof.
  intros Hle. unfold ebnf_to_bnf.
  pose proof (norm_fuel_suffices fuel (enext G) (eprods G) Hle) as Hn.
  destruct (norm fuel (enext G) (eprods G)) as [ps'|] eqn:En; [|congruence].
  assert (Hg : gbound (enext G) (eprods G) = true) by (apply gmax_bound; unfold enext; lia).
  destruct (norm_preserves fuel _ _ _ Hg En) as [_ Hflat]. unfold to_cfg.
  pose proof (flat_to_prods ps' Hflat). destruct (to_prods ps'); [discriminate|congruence].
Qed.

Lemma ebnf_to_bnf_mono fuel fuel' G B : ebnf_to_bnf fuel G = Some B -> fuel <= fuel' ->
  ebnf_to_bnf fuel' G = Some B.
Proof.
  unfold ebnf_to_bnf. intros H Hle.
  destruct (norm fuel (enext G) (eprods G)) as [ps'|] eqn:En; [|discriminate].
  rewrite (norm_fuel_mono fuel fuel' _ _ _ En Hle). exact H.
Qed.

Lemma member_fuel_enough fuel g w : member_fuel g w <= fuel -> member fuel g w <> None.
Proof.
  intros Hle. unfold member, member_from.
  destruct (saturate w (work g w) fuel tempty) eqn:E; [discriminate|]. exfalso. revert E.
  apply (saturate_fuel g w); [apply sound_tempty|].
  unfold member_fuel in Hle. rewrite universe_length. lia.
Qed.

(** With [emember_fuel] (or more) the oracle always answers. *)
Theorem emember_fuel_suffices G w fuel : emember_fuel G w <= fuel -> emember fuel G w <> None.
Proof.
  unfold emember_fuel, emember. intros Hle.
  pose proof (ebnf_to_bnf_fuel (S (gweight (eprods G))) G ltac:(lia)) as Hb.
  destruct (ebnf_to_bnf (S (gweight (eprods G))) G) as [B|] eqn:EB; [|congruence].
  rewrite (ebnf_to_bnf_mono _ fuel G B EB ltac:(lia)). apply member_fuel_enough. lia.
Qed.

Corollary emember_decides G w :
  (emember (emember_fuel G w) G w = Some true /\ elang G w) \/
  (emember (emember_fuel G w) G w = Some false /\ ~ elang G w).
Proof.
  destruct (emember (emember_fuel G w) G w) as [[|]|] eqn:E.
  - left. split; [reflexivity|exact (emember_sound _ _ _ E)].
  - right. split; [reflexivity|exact (emember_complete _ _ _ E)].
  - exfalso. exact (emember_fuel_suffices G w _ (le_n _) E).
Qed.

(** ** Examples *)

(** [S: "a" { "b" | "c" } [ "d" ] ( "e" | "f" );]  with a..f = 5..10. *)
Definition ex_ebnf1 : egrammar :=
  mkEg 0 [(0%N, [[FT 5; FRep [[FT 6]; [FT 7]]; FOpt [[FT 8]]; FGroup [[FT 9]; [FT 10]]]])].

Example ex_ebnf1_bnf : ebnf_to_bnf 10 ex_ebnf1 = Some (mkCfg 0
  [ mkProd 0 [T 5; NT 1; NT 2; NT 3];
    mkProd 3 [T 9]; mkProd 3 [T 10];
    mkProd 2 []; mkProd 2 [T 8];
    mkProd 1 []; mkProd 1 [NT 4; NT 1];
    mkProd 4 [T 6]; mkProd 4 [T 7] ]).
Proof. vm_compute. reflexivity. Qed.

Example ex_ebnf1_in1 : emember (emember_fuel ex_ebnf1 [5;6;7;7;8;9]%N) ex_ebnf1 [5;6;7;7;8;9]%N = Some true.
Proof. vm_compute. reflexivity. Qed.
Example ex_ebnf1_in2 : emember (emember_fuel ex_ebnf1 [5;10]%N) ex_ebnf1 [5;10]%N = Some true.
Proof. vm_compute. reflexivity. Qed.
Example ex_ebnf1_out1 : emember (emember_fuel ex_ebnf1 [5;8;8;9]%N) ex_ebnf1 [5;8;8;9]%N = Some false.
Proof. vm_compute. reflexivity. Qed.
Example ex_ebnf1_out2 : emember (emember_fuel ex_ebnf1 [5;6]%N) ex_ebnf1 [5;6]%N = Some false.
Proof. vm_compute. reflexivity. Qed.
Example ex_ebnf1_nofuel : emember 1 ex_ebnf1 [5;10]%N = None.
Proof. vm_compute. reflexivity. Qed.

(** [E: T { "+" T };  T: "x" | "(" E ")" | [ "-" ] "n";]  (+ = 5, x = 6, ( = 7, ) = 8, - = 9, n = 10),
    with the left-hand side [T] split over two productions. *)
Definition ex_ebnf2 : egrammar :=
  mkEg 0 [(0%N, [[FN 1; FRep [[FT 5; FN 1]]]]);
          (1%N, [[FT 6]; [FT 7; FN 0; FT 8]]);
          (1%N, [[FOpt [[FT 9]]; FT 10]])].

Example ex_ebnf2_in : emember (emember_fuel ex_ebnf2 [7;6;5;9;10;8;5;10]%N) ex_ebnf2 [7;6;5;9;10;8;5;10]%N = Some true.
Proof. vm_compute. reflexivity. Qed.
Example ex_ebnf2_out : emember (emember_fuel ex_ebnf2 [7;6;5;8]%N) ex_ebnf2 [7;6;5;8]%N = Some false.
Proof. vm_compute. reflexivity. Qed.

(** Non-vacuity of the hypotheses of [emember_sound]/[emember_complete]/[ebnf_to_bnf_correct]:
    the examples above; of [intro_preserves]/[norm_preserves]: *)
Example ex_norm : exists ps', norm 10 1 (eprods ex_ebnf1) = Some ps' /\ gbound 1 (eprods ex_ebnf1) = true.
Proof. eexists. split; vm_compute; reflexivity. Qed.

Print Assumptions ext_preserves.
Print Assumptions intro_preserves.
Print Assumptions to_cfg_derives.
Print Assumptions ebnf_to_bnf_correct.
Print Assumptions emember_sound.
Print Assumptions emember_complete.
Print Assumptions emember_fuel_suffices.
