#!/usr/bin/env python3
"""Writes /verif/MANIFEST.json from tools/registry.py (single source of truth)."""
import json, os, subprocess, sys
sys.path.insert(0, os.path.dirname(os.path.abspath(__file__)))
import registry
VERIF = os.path.dirname(os.path.dirname(os.path.abspath(__file__)))
ids = [json.loads(l)['id'] for l in open(os.path.join(VERIF, 'properties.jsonl'))]
hook_commits = subprocess.run("git -C /repo log --format=%H --grep='^verif hook'", shell=True,
                              stdout=subprocess.PIPE, text=True).stdout.split()
checks = []
for pid in ids:
    if pid not in registry.PROPS:
        continue
    sp = registry.PROPS[pid]
    checks.append(dict(
        property_id=pid,
        quick_cmd='./check %s --tier quick' % pid,
        thorough_cmd='./check %s --tier thorough' % pid,
        evidence_file='evidence/%s.json' % pid,
        replay_cmd_template='./check %s --replay {path}' % pid,
        engine='rocq-proof+correspondence',
        level_claimed=dict(category=sp['level'], text=sp['level_text'], design_ref=sp.get('design_ref', 'DESIGN.md section 5, ' + pid)),
        level_note=sp['level_note'],
        technique=sp['technique'],
    ))
na = []
for pid in ids:
    if pid in registry.PROPS:
        continue
    na.append(dict(property_id=pid, reason=registry.NOT_APPLICABLE.get(pid, 'no check registered yet (machinery for this property is not built); not claimed')))
m = dict(
    version=1,
    setup_cmd='./setup.sh',
    hooks=dict(guard='--cfg parol_verif',
               enable='RUSTFLAGS="--cfg parol_verif" (set by harness/.cargo/config.toml and tools/checklib.py)',
               baseline_off_cmd='cd /repo && cargo test --workspace --no-fail-fast --offline',
               source_commits=hook_commits, add_only=True),
    engines=[dict(name='rocq-proof+correspondence', path='check',
                  serves_properties=[c['property_id'] for c in checks],
                  kind_free_text='Rocq/Coq 8.16 theorems about hand-written Gallina models and checkers (coq/), '
                                 'tied to /repo by a translator (tools/gen_consts.py -> coq/Gen) and by a correspondence run: '
                                 'Rust harness (harness/) runs the real code, extracted OCaml (ocaml/) evaluates the proved checkers')],
    checks=checks,
    not_applicable=na,
    notes='See DESIGN.md. Every check: ./check <ID> --tier quick|thorough. Known findings: known_findings.json.',
)
json.dump(m, open(os.path.join(VERIF, 'MANIFEST.json'), 'w'), indent=1)
print('MANIFEST.json: %d checks, %d not_applicable' % (len(checks), len(na)))
