(* drv — evaluates the extracted Coq models / checkers on the cases the Rust harness printed.
   Reads one S-expression per line on stdin; prints one verdict line per case:
     OK <nontrivial:0|1>
     FAIL <reason>
     SKIP <reason>
   Lines that do not start with '(' are ignored (harness diagnostics). *)
open Sexp
open Conv

let c31 = function
  | [act; exp; A "panic"; _] ->
    ignore act; ignore exp; "FAIL implementation panicked"
  | [act; exp; d; ops] ->
    let act' = ns_of_sx act and exp' = ns_of_sx exp in
    let d' = nat_of_int (int_of_sx d) in
    let ops' = List.map (function 0 -> Model.Keep | 1 -> Model.Insert | 2 -> Model.Delete
                                  | 3 -> Model.Replace | _ -> failwith "op") (ints_of_sx ops) in
    if Model.lev_check act' exp' d' ops' then
      let nt = act' <> [] && exp' <> [] && act' <> exp' in
      Printf.sprintf "OK %d" (if nt then 1 else 0)
    else
      Printf.sprintf "FAIL lev_check rejected (model distance %d)" (int_of_nat (Model.dist act' exp'))
  | _ -> "FAIL malformed case"

let dispatch (sx : Sexp.t) : string =
  match sx with
  | L (A "lev" :: args) -> c31 args
  | _ -> "SKIP unknown case kind"

let () =
  try
    while true do
      let line = input_line stdin in
      if String.length line > 0 && line.[0] = '(' then begin
        let verdict =
          try dispatch (Sexp.parse line)
          with e -> "FAIL driver exception " ^ Printexc.to_string e in
        print_endline verdict
      end
    done
  with End_of_file -> ()
