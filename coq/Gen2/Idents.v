(** * Generated identifiers are unique and valid (C33)

    Rust code modelled (crates/parol/src):

    - utils/mod.rs [generate_name]: model and proofs in Transform/Names.v (imported).
    - generators/lexer_generator.rs [generate_terminal_names]:
      [[
      .fold(Vec::new(), |mut acc, (i, e)| {
          let n = generate_name(acc.iter(), generate_terminal_name(&e.0, Some(i), e.1.as_ref(), cfg));
          acc.push(n); acc })
      ]]
      = [generate_terminal_names prefs] where [prefs] are the preferred names
      ([generate_terminal_name ...]) in order.
    - generators/terminal_name_generator.rs, the inner [generate_name(s)] of
      [generate_terminal_name] (the char -> name table): [terminal_name_of].
    - generators/naming_helper.rs: [KEYWORDS], [is_rust_keyword], [escape_rust_keyword],
      [to_upper_camel_case], [to_lower_snake_case].

    Strings are Coq [string]s, i.e. BYTE sequences; the Rust functions work on [char]s.  The
    models are exact for ASCII input (all names parol's own identifier token
    [/[a-zA-Z_][a-zA-Z0-9_]*/] admits are ASCII): [char::to_uppercase/to_lowercase] restricted to
    ASCII are [to_upper]/[to_lower]; [char::is_alphanumeric]/[is_numeric] restricted to ASCII are
    [is_alnum]/[is_digit].  For bytes >= 128 the models treat the byte as "other" (not a
    letter), which is NOT what the Rust code does for non-ASCII letters; the table entry for the
    non-ASCII character U+00A7 ("Para") is therefore absent from [punct_name].

    FINDINGS (all confirmed by running the real parol on a two-line grammar; it reports success
    and writes Rust that does not compile):
    - [to_upper_camel_case "self" = "Self"]: a KEYWORD that cannot be used as a type name
      (and the code comment "rust identifiers only start with a lowercase letter" is wrong):
      [camel_case_keyword_refuted].  Non-terminal [self] => [pub struct Self<'t>].
    - [to_lower_snake_case] of [self]/[Self]/[crate]/[super] gives [r#self], [r#crate],
      [r#super]: these four keywords are NOT allowed as raw identifiers:
      [snake_case_raw_refuted].
    - names consisting of underscores only (the non-terminal [_] is accepted by the grammar of
      PAR files): [to_upper_camel_case "_" = ""] (=> [pub struct  <'t>]) and
      [to_lower_snake_case "_" = "_"] (=> [fn _(...)], field [pub _: ...]); the terminal [" "]
      gets the terminal name ["_"], hence the member name [_]:
      [camel_case_empty_refuted], [snake_case_underscore_refuted]. *)
From Coq Require Import String Ascii List NArith Arith Bool Lia DecimalString.
From Parol Require Import Transform.Names.
Import ListNotations.

(** ** Character classes (ASCII) *)
Definition code (c : ascii) : N := N_of_ascii c.
Definition is_upper (c : ascii) : bool := (N.leb 65 (code c) && N.leb (code c) 90)%bool.
Definition is_lower (c : ascii) : bool := (N.leb 97 (code c) && N.leb (code c) 122)%bool.
Definition is_alpha (c : ascii) : bool := is_upper c || is_lower c.
Definition is_alnum (c : ascii) : bool := is_alpha c || is_digit c.
Definition is_us (c : ascii) : bool := Ascii.eqb c "_"%char.
Definition name_char (c : ascii) : bool := is_alnum c || is_us c.
Definition to_upper (c : ascii) : ascii := if is_lower c then ascii_of_N (code c - 32) else c.
Definition to_lower (c : ascii) : ascii := if is_upper c then ascii_of_N (code c + 32) else c.

(** ** Validity *)
Definition valid_chars (l : list ascii) : bool :=
  match l with
  | [] => false
  | c :: r => (is_alpha c || is_us c) && forallb name_char r
  end.

(** Lexically an identifier: non-empty, first character a letter or [_], the rest letters,
    digits or [_]. *)
Definition valid_ident (s : string) : bool := valid_chars (list_ascii_of_string s).

Local Open Scope string_scope.

(** [KEYWORDS] of naming_helper.rs (a superset of the strict, reserved and edition keywords). *)
Definition keywords : list string :=
  [ "abstract"; "as"; "async"; "await"; "become"; "box"; "break"; "const"; "continue"; "crate";
    "do"; "dyn"; "else"; "enum"; "extern"; "false"; "final"; "fn"; "for"; "gen"; "if"; "impl";
    "in"; "let"; "loop"; "macro"; "match"; "mod"; "move"; "mut"; "override"; "priv"; "pub"; "ref";
    "return"; "Self"; "self"; "static"; "struct"; "super"; "trait"; "true"; "try"; "type";
    "typeof"; "union"; "unsafe"; "unsized"; "use"; "virtual"; "where"; "while"; "yield" ].

Definition is_rust_keyword (s : string) : bool := mem s keywords.

Definition escape_rust_keyword (s : string) : string :=
  if is_rust_keyword s then "r#" ++ s else s.

(** Keywords rustc rejects as raw identifiers. *)
Definition raw_forbidden : list string := ["self"; "Self"; "crate"; "super"].

Definition strip_raw (s : string) : option string :=
  match s with
  | String "r" (String "#" k) => Some k
  | _ => None
  end.

(** [unraw "r#x" = "x"]. *)
Definition unraw (s : string) : string := match strip_raw s with Some k => k | None => s end.

(** Usable as a Rust identifier: lexically valid, not a keyword, not the lone underscore; or a
    raw identifier [r#k] with [k] lexically valid and allowed to be raw. *)
Definition rust_ident_ok (s : string) : bool :=
  match strip_raw s with
  | Some k => valid_ident k && negb (mem k raw_forbidden) && negb (String.eqb k "_")
  | None => valid_ident s && negb (is_rust_keyword s) && negb (String.eqb s "_")
  end.

(** ** [to_upper_camel_case]
    State: the result so far (reversed), [up], [last_char]. *)
Definition camel_step (st : list ascii * bool * ascii) (c : ascii) : list ascii * bool * ascii :=
  let '(acc, up, last) := st in
  if is_us c then (acc, true, last)
  else if up then
    let acc1 := if is_digit last && is_digit c then "_"%char :: acc else acc in
    let u := to_upper c in (u :: acc1, false, u)
  else (c :: acc, false, c).

(** [if result.starts_with(|c| c.is_ascii_digit()) { format!("_{result}") } else { result }]. *)
Definition fix_head (r : list ascii) : list ascii :=
  match r with
  | c :: _ => if is_digit c then "_"%char :: r else r
  | [] => r
  end.

Definition camel_chars (l : list ascii) : list ascii :=
  let l' := match l with "r"%char :: "#"%char :: r => r | _ => l end in
  fix_head (rev (fst (fst (fold_left camel_step l' ([], true, "."%char))))).

Definition to_upper_camel_case (s : string) : string :=
  string_of_list_ascii (camel_chars (list_ascii_of_string s)).

(** ** [to_lower_snake_case]
    State: the result so far (reversed) and [last_char]. *)
Definition snake_step (st : list ascii * ascii) (c : ascii) : list ascii * ascii :=
  let '(acc, last) := st in
  (match acc with
   | [] => [to_lower c]
   | top :: _ =>
       if is_us c then (if is_us top then acc else "_"%char :: acc)
       else if is_digit c && is_alpha last then to_lower c :: acc
       else if is_upper c then to_lower c :: (if is_us top then acc else "_"%char :: acc)
       else c :: acc
   end, c).

Definition snake_chars (l : list ascii) : list ascii :=
  fix_head (rev (fst (fold_left snake_step l ([], "."%char)))).

Definition to_lower_snake_case (s : string) : string :=
  escape_rust_keyword (string_of_list_ascii (snake_chars (list_ascii_of_string s))).

(** ** The terminal name table: inner [generate_name] of [generate_terminal_name] *)
Definition punct_name (c : ascii) : string :=
  match c with
  | "\"%char => ""        | "|"%char => "Or"
  | "("%char => "LParen"  | ")"%char => "RParen"
  | "["%char => "LBracket" | "]"%char => "RBracket"
  | "{"%char => "LBrace"  | "}"%char => "RBrace"
  | "+"%char => "Plus"    | "-"%char => "Minus"
  | "*"%char => "Star"    | "/"%char => "Slash"
  | "="%char => "Equ"     | "!"%char => "Bang"
  | "."%char => "Dot"     | "~"%char => "Tilde"
  | "$"%char => "Dollar"  | "%"%char => "Percent"
  | "<"%char => "LT"      | ">"%char => "GT"
  | "?"%char => "Quest"   | "@"%char => "At"
  | ":"%char => "Colon"   | ";"%char => "Semicolon"
  | "^"%char => "Circumflex" | "_"%char => "Underscore"
  | "&"%char => "Amp"     | "'"%char => "Tick"
  | """"%char => "Quote"  | "`"%char => "Backtick"
  | ","%char => "Comma"   | "#"%char => "Hash"
  | _ => "_"
  end.

(** State: [cap] and the name so far (reversed). *)
Definition tn_step (st : bool * list ascii) (c : ascii) : bool * list ascii :=
  let '(cap, acc) := st in
  if is_alnum c then (false, (if cap then to_upper c else c) :: acc)
  else (true, (rev (list_ascii_of_string (punct_name c)) ++ acc)%list).

Definition tn_chars (l : list ascii) : list ascii :=
  let name := rev (snd (fold_left tn_step l (true, []))) in
  match name, l with
  | [], _ :: _ => list_ascii_of_string "Esc"
  | _, _ => fix_head name
  end.

Definition terminal_name_of (s : string) : string :=
  string_of_list_ascii (tn_chars (list_ascii_of_string s)).

(** ** [generate_terminal_names] *)
Definition generate_terminal_names (prefs : list string) : list string :=
  fold_left (fun acc p => (acc ++ [generate_name acc p])%list) prefs [].

(** ** Domain of the case conversions: letters, digits, [_]; at least one letter or digit *)
Definition name_chars (s : string) : bool := forallb name_char (list_ascii_of_string s).
Definition has_alnum (s : string) : bool := existsb is_alnum (list_ascii_of_string s).
Definition has_letter (s : string) : bool := existsb is_alpha (list_ascii_of_string s).

(** ** Character facts (256 cases each) *)
Ltac all_ascii := intros c; destruct c as [[] [] [] [] [] [] [] []]; reflexivity.

Lemma to_upper_name_char : forall c, implb (name_char c) (name_char (to_upper c)) = true.
Proof. all_ascii. Qed.
Lemma to_lower_name_char : forall c, implb (name_char c) (name_char (to_lower c)) = true.
Proof. all_ascii. Qed.
Lemma to_upper_alnum : forall c, implb (is_alnum c) (is_alnum (to_upper c)) = true.
Proof. all_ascii. Qed.
Lemma to_lower_alnum : forall c, implb (is_alnum c) (is_alnum (to_lower c)) = true.
Proof. all_ascii. Qed.
Lemma to_upper_not_lower : forall c, is_lower (to_upper c) = false.
Proof. all_ascii. Qed.
Lemma alnum_not_us : forall c, implb (is_alnum c) (negb (is_us c)) = true.
Proof. all_ascii. Qed.
Lemma alnum_name_char : forall c, implb (is_alnum c) (name_char c) = true.
Proof. all_ascii. Qed.
Lemma digit_name_char : forall c, implb (is_digit c) (name_char c) = true.
Proof. all_ascii. Qed.
Lemma name_char_start : forall c,
  implb (name_char c && negb (is_digit c)) (is_alpha c || is_us c) = true.
Proof. all_ascii. Qed.
Lemma alpha_not_digit : forall c, implb (is_alpha c || is_us c) (negb (is_digit c) && name_char c) = true.
Proof. all_ascii. Qed.
Lemma alpha_alnum : forall c, implb (is_alpha c) (is_alnum c) = true.
Proof. all_ascii. Qed.
Lemma punct_name_chars : forall c, forallb name_char (list_ascii_of_string (punct_name c)) = true.
Proof. all_ascii. Qed.
Lemma name_char_not_hash : forall c, implb (name_char c) (negb (Ascii.eqb c "#"%char)) = true.
Proof. all_ascii. Qed.

Lemma implb_elim a b : implb a b = true -> a = true -> b = true.
Proof. destruct a, b; cbn; congruence. Qed.

Lemma us_name_char : name_char "_"%char = true.
Proof. reflexivity. Qed.

(** ** String/list plumbing *)
Lemma las_app a : forall b,
  list_ascii_of_string (a ++ b) = (list_ascii_of_string a ++ list_ascii_of_string b)%list.
Proof. induction a as [|c a IH]; intros b; cbn; [reflexivity|]. rewrite IH. reflexivity. Qed.

Lemma forallb_rev {A} (p : A -> bool) l : forallb p (rev l) = forallb p l.
Proof.
  apply eq_true_iff_eq. rewrite !forallb_forall. split; intros H x Hx; apply H.
  - apply in_rev. rewrite rev_involutive. exact Hx.
  - apply in_rev. exact Hx.
Qed.

Lemma existsb_rev {A} (p : A -> bool) l : existsb p (rev l) = existsb p l.
Proof.
  apply eq_true_iff_eq. rewrite !existsb_exists. split; intros (x & Hx & Hp); exists x; split; auto.
  - apply in_rev. exact Hx.
  - apply in_rev. rewrite rev_involutive. exact Hx.
Qed.

Lemma fix_head_valid r :
  forallb name_char r = true -> r <> [] -> valid_chars (fix_head r) = true.
Proof.
  intros Hall Hne. destruct r as [|c r]; [congruence|]. cbn [fix_head].
  cbn [forallb] in Hall. apply andb_true_iff in Hall as [Hc Hr].
  destruct (is_digit c) eqn:Ed; cbn [valid_chars].
  - cbn [forallb]. rewrite Hc, Hr. reflexivity.
  - rewrite Hr, andb_true_r. apply (implb_elim _ _ (name_char_start c)). rewrite Hc, Ed. reflexivity.
Qed.

Lemma fix_head_chars r : forallb name_char r = true -> forallb name_char (fix_head r) = true.
Proof.
  intros H. destruct r as [|c r]; [reflexivity|]. cbn [fix_head].
  destruct (is_digit c); [|exact H]. cbn [forallb]. rewrite us_name_char. exact H.
Qed.

Lemma fix_head_alnum r : existsb is_alnum r = true -> existsb is_alnum (fix_head r) = true.
Proof.
  intros H. destruct r as [|c r]; [exact H|]. cbn [fix_head].
  destruct (is_digit c); [|exact H]. cbn [existsb] in *. rewrite H. apply orb_true_r.
Qed.

Lemma valid_chars_all l : valid_chars l = true -> forallb name_char l = true.
Proof.
  destruct l as [|c r]; [discriminate|]. cbn [valid_chars forallb]. intros H.
  apply andb_true_iff in H as [H1 H2]. rewrite H2, andb_true_r.
  pose proof (implb_elim _ _ (alpha_not_digit c) H1) as H. apply andb_true_iff in H. tauto.
Qed.

Lemma valid_chars_app l q :
  valid_chars l = true -> forallb name_char q = true -> valid_chars (l ++ q)%list = true.
Proof.
  destruct l as [|c r]; [discriminate|]. cbn [valid_chars app]. intros H Hq.
  apply andb_true_iff in H as [H1 H2]. rewrite H1, forallb_app, H2, Hq. reflexivity.
Qed.

(** A list of name characters that contains a letter or digit is not the lone underscore and
    contains no [#]. *)
Lemma alnum_not_underscore l :
  existsb is_alnum l = true -> String.eqb (string_of_list_ascii l) "_" = false.
Proof.
  intros H. apply String.eqb_neq. intros E.
  apply (f_equal list_ascii_of_string) in E. rewrite list_ascii_of_string_of_list_ascii in E.
  subst l. discriminate H.
Qed.

Lemma name_chars_strip_raw l :
  forallb name_char l = true -> strip_raw (string_of_list_ascii l) = None.
Proof.
  intros H. destruct l as [|a [|b l]]; cbn; try reflexivity.
  - destruct a as [[] [] [] [] [] [] [] []]; reflexivity.
  - cbn [forallb] in H. apply andb_true_iff in H as [_ H]. apply andb_true_iff in H as [Hb _].
    pose proof (implb_elim _ _ (name_char_not_hash b) Hb) as Hh.
    destruct a as [[] [] [] [] [] [] [] []]; try reflexivity.
    destruct b as [[] [] [] [] [] [] [] []]; try reflexivity. discriminate Hh.
Qed.

(** ** [to_upper_camel_case] *)
Definition c_acc (st : list ascii * bool * ascii) : list ascii := fst (fst st).

Lemma camel_fold_chars l : forall st,
  forallb name_char l = true -> forallb name_char (c_acc st) = true ->
  forallb name_char (c_acc (fold_left camel_step l st)) = true.
Proof.
  induction l as [|c l IH]; intros st Hl Hst; cbn [fold_left]; [exact Hst|].
  cbn [forallb] in Hl. apply andb_true_iff in Hl as [Hc Hl]. apply IH; [exact Hl|].
  destruct st as [[acc up] last]. unfold c_acc in *. cbn [fst] in *. unfold camel_step.
  destruct (is_us c); [exact Hst|]. destruct up; cbn [fst forallb].
  - rewrite (implb_elim _ _ (to_upper_name_char c) Hc).
    destruct (is_digit last && is_digit c); cbn [forallb]; rewrite ?us_name_char; exact Hst.
  - rewrite Hc. exact Hst.
Qed.

Lemma camel_fold_alnum l : forall st,
  existsb is_alnum (c_acc st) = true \/ existsb is_alnum l = true ->
  existsb is_alnum (c_acc (fold_left camel_step l st)) = true.
Proof.
  induction l as [|c l IH]; intros st H; cbn [fold_left].
  - destruct H as [H|H]; [exact H|discriminate].
  - apply IH. destruct st as [[acc up] last]. unfold c_acc in *. cbn [fst existsb] in *.
    unfold camel_step.
    destruct H as [H|H].
    + left. destruct (is_us c); [exact H|]. destruct up; cbn [fst existsb].
      * destruct (is_digit last && is_digit c); cbn [existsb]; rewrite H, ?orb_true_r; reflexivity.
      * rewrite H. apply orb_true_r.
    + apply orb_true_iff in H as [H|H]; [left|right; exact H].
      pose proof (implb_elim _ _ (alnum_not_us c) H) as Hus. apply negb_true_iff in Hus.
      rewrite Hus. destruct up; cbn [fst existsb].
      * rewrite (implb_elim _ _ (to_upper_alnum c) H). reflexivity.
      * rewrite H. reflexivity.
Qed.

(** The first character pushed is never a lower-case letter. *)
Definition c_inv (st : list ascii * bool * ascii) : Prop :=
  let '(acc, up, _) := st in
  (up = true \/ acc <> []) /\ (forall x, hd_error (rev acc) = Some x -> is_lower x = false).

Lemma hd_rev_cons {A} (x : A) acc : acc <> [] -> hd_error (rev (x :: acc)) = hd_error (rev acc).
Proof.
  intros Hne. cbn [rev]. destruct (rev acc) as [|y r] eqn:E; [|reflexivity].
  apply (f_equal (@rev A)) in E. rewrite rev_involutive in E. cbn in E. congruence.
Qed.

Lemma camel_step_inv st c : c_inv st -> c_inv (camel_step st c).
Proof.
  destruct st as [[acc up] last]. intros [H1 H2]. unfold camel_step.
  destruct (is_us c); [split; [left; reflexivity|exact H2]|].
  destruct up.
  - split; [right; discriminate|]. intros x Hx.
    destruct acc as [|a acc].
    + destruct (is_digit last && is_digit c); cbn in Hx; inversion Hx; subst x;
        [reflexivity|apply to_upper_not_lower].
    + apply H2. rewrite <- Hx. symmetry.
      destruct (is_digit last && is_digit c).
      * rewrite hd_rev_cons by discriminate. apply hd_rev_cons. discriminate.
      * apply hd_rev_cons. discriminate.
  - destruct H1 as [H1|H1]; [discriminate|]. split; [right; discriminate|].
    intros x Hx. apply H2. rewrite <- Hx. symmetry. apply hd_rev_cons. exact H1.
Qed.

Lemma camel_fold_inv l : forall st, c_inv st -> c_inv (fold_left camel_step l st).
Proof.
  induction l as [|c l IH]; intros st H; cbn [fold_left]; [exact H|].
  apply IH. apply camel_step_inv. exact H.
Qed.

Lemma camel_input_no_raw l :
  forallb name_char l = true ->
  match l with "r"%char :: "#"%char :: r => r | _ => l end = l.
Proof.
  intros H. destruct l as [|a [|b l]]; try reflexivity.
  - destruct a as [[] [] [] [] [] [] [] []]; reflexivity.
  - cbn [forallb] in H. apply andb_true_iff in H as [_ H]. apply andb_true_iff in H as [Hb _].
    pose proof (implb_elim _ _ (name_char_not_hash b) Hb) as Hh.
    destruct a as [[] [] [] [] [] [] [] []]; try reflexivity.
    destruct b as [[] [] [] [] [] [] [] []]; try reflexivity. discriminate Hh.
Qed.

Lemma camel_chars_facts l :
  forallb name_char l = true -> existsb is_alnum l = true ->
  let r := camel_chars l in
  valid_chars r = true /\ existsb is_alnum r = true /\
  (forall x, hd_error r = Some x -> is_lower x = false).
Proof.
  intros Hl Ha. unfold camel_chars. rewrite (camel_input_no_raw l Hl).
  set (st := fold_left camel_step l ([], true, "."%char)).
  assert (Hc : forallb name_char (c_acc st) = true) by (apply camel_fold_chars; [exact Hl|reflexivity]).
  assert (He : existsb is_alnum (c_acc st) = true) by (apply camel_fold_alnum; right; exact Ha).
  assert (Hi : c_inv st).
  { apply camel_fold_inv. split; [left; reflexivity|]. intros x Hx. discriminate Hx. }
  fold (c_acc st). destruct st as [[acc up] last]. unfold c_acc in *. cbn [fst] in *.
  destruct Hi as [_ Hi]. rewrite <- forallb_rev in Hc. rewrite <- existsb_rev in He.
  split; [|split].
  - apply fix_head_valid; [exact Hc|]. intros E. rewrite E in He. discriminate.
  - apply fix_head_alnum. exact He.
  - intros x Hx. destruct (rev acc) as [|y r]; [discriminate|]. cbn [fix_head] in Hx.
    destruct (is_digit y); cbn in Hx; inversion Hx; subst x; [reflexivity|].
    apply Hi. reflexivity.
Qed.

(** The upper camel case form of a name of letters, digits and [_] with at least one letter or
    digit is lexically an identifier ... *)
Theorem camel_case_valid s :
  name_chars s = true -> has_alnum s = true -> valid_ident (to_upper_camel_case s) = true.
Proof.
  intros H1 H2. unfold valid_ident, to_upper_camel_case.
  rewrite list_ascii_of_string_of_list_ascii. apply (camel_chars_facts _ H1 H2).
Qed.

Definition starts_lower (s : string) : bool :=
  match s with String c _ => is_lower c | EmptyString => false end.

Lemma keywords_lower_or_Self :
  forallb (fun k => starts_lower k || String.eqb k "Self") keywords = true.
Proof. vm_compute. reflexivity. Qed.

(** ... and usable as a Rust identifier, with ONE exception: the keyword [Self]. *)
Theorem camel_case_rust_ok s :
  name_chars s = true -> has_alnum s = true ->
  rust_ident_ok (to_upper_camel_case s) = true \/ to_upper_camel_case s = "Self".
Proof.
  intros H1 H2. unfold to_upper_camel_case.
  destruct (camel_chars_facts _ H1 H2) as (Hv & Ha & Hh). cbv zeta in *.
  set (r := camel_chars (list_ascii_of_string s)) in *.
  destruct (is_rust_keyword (string_of_list_ascii r)) eqn:Ek.
  - right. unfold is_rust_keyword in Ek. apply mem_In in Ek.
    pose proof (proj1 (forallb_forall _ _) keywords_lower_or_Self _ Ek) as Hk. cbv beta in Hk.
    apply orb_true_iff in Hk as [Hk|Hk]; [|apply String.eqb_eq; exact Hk].
    destruct r as [|x r']; [discriminate Hv|]. cbn in Hk. rewrite (Hh x eq_refl) in Hk. discriminate.
  - left. unfold rust_ident_ok. rewrite name_chars_strip_raw by (apply valid_chars_all; exact Hv).
    unfold valid_ident. rewrite list_ascii_of_string_of_list_ascii, Hv, Ek.
    rewrite alnum_not_underscore by exact Ha. reflexivity.
Qed.

Theorem camel_case_keyword_refuted :
  exists s, name_chars s = true /\ has_letter s = true /\
            is_rust_keyword (to_upper_camel_case s) = true /\
            rust_ident_ok (to_upper_camel_case s) = false.
Proof. exists "self". vm_compute. repeat split. Qed.

(** Outside the domain: a name of underscores only gives the EMPTY type name. *)
Theorem camel_case_empty_refuted :
  exists s, name_chars s = true /\ valid_ident s = true /\ to_upper_camel_case s = "".
Proof. exists "_". vm_compute. repeat split. Qed.

(** ** [to_lower_snake_case] *)
Lemma snake_fold_chars l : forall st,
  forallb name_char l = true -> forallb name_char (fst st) = true ->
  forallb name_char (fst (fold_left snake_step l st)) = true.
Proof.
  induction l as [|c l IH]; intros st Hl Hst; cbn [fold_left]; [exact Hst|].
  cbn [forallb] in Hl. apply andb_true_iff in Hl as [Hc Hl]. apply IH; [exact Hl|].
  destruct st as [acc last]. cbn [fst] in *. unfold snake_step. cbn [fst].
  pose proof (implb_elim _ _ (to_lower_name_char c) Hc) as Hlc.
  destruct acc as [|top acc]; [cbn [forallb]; rewrite Hlc; reflexivity|].
  destruct (is_us c).
  { destruct (is_us top); [exact Hst|]. cbn [forallb] in *. rewrite us_name_char. exact Hst. }
  destruct (is_digit c && is_alpha last).
  { cbn [forallb] in *. rewrite Hlc. exact Hst. }
  destruct (is_upper c).
  { destruct (is_us top); cbn [forallb] in *; rewrite Hlc, ?us_name_char; exact Hst. }
  cbn [forallb] in *. rewrite Hc. exact Hst.
Qed.

Lemma snake_fold_alnum l : forall st,
  existsb is_alnum (fst st) = true \/ existsb is_alnum l = true ->
  existsb is_alnum (fst (fold_left snake_step l st)) = true.
Proof.
  induction l as [|c l IH]; intros st H; cbn [fold_left].
  - destruct H as [H|H]; [exact H|discriminate].
  - apply IH. destruct st as [acc last]. cbn [fst existsb] in *. unfold snake_step. cbn [fst].
    destruct H as [H|H].
    + left. destruct acc as [|top acc]; [discriminate H|].
      destruct (is_us c).
      { destruct (is_us top); [exact H|]. cbn [existsb] in *. exact H. }
      destruct (is_digit c && is_alpha last).
      { cbn [existsb] in *. rewrite H. apply orb_true_r. }
      destruct (is_upper c).
      { destruct (is_us top); cbn [existsb] in *; rewrite H, ?orb_true_r; reflexivity. }
      cbn [existsb] in *. rewrite H. apply orb_true_r.
    + apply orb_true_iff in H as [H|H]; [left|right; exact H].
      pose proof (implb_elim _ _ (alnum_not_us c) H) as Hus. apply negb_true_iff in Hus.
      pose proof (implb_elim _ _ (to_lower_alnum c) H) as Hlc.
      destruct acc as [|top acc]; [cbn [existsb]; rewrite Hlc; reflexivity|].
      rewrite Hus. destruct (is_digit c && is_alpha last); [cbn [existsb]; rewrite Hlc; reflexivity|].
      destruct (is_upper c); cbn [existsb]; [rewrite Hlc|rewrite H]; reflexivity.
Qed.

Lemma snake_fold_nonempty l : forall st,
  fst st <> [] \/ l <> [] -> fst (fold_left snake_step l st) <> [].
Proof.
  induction l as [|c l IH]; intros st H; cbn [fold_left].
  - destruct H as [H|H]; [exact H|congruence].
  - apply IH. left. destruct st as [acc last]. unfold snake_step. cbn [fst].
    destruct acc as [|top acc]; [discriminate|].
    destruct (is_us c); [destruct (is_us top); discriminate|].
    destruct (is_digit c && is_alpha last); [discriminate|].
    destruct (is_upper c); discriminate.
Qed.

Lemma snake_chars_facts l :
  forallb name_char l = true -> l <> [] ->
  valid_chars (snake_chars l) = true /\
  (existsb is_alnum l = true -> existsb is_alnum (snake_chars l) = true).
Proof.
  intros Hl Hne. unfold snake_chars.
  set (st := fold_left snake_step l ([], "."%char)).
  assert (Hc : forallb name_char (fst st) = true) by (apply snake_fold_chars; [exact Hl|reflexivity]).
  assert (Hn : fst st <> []) by (apply snake_fold_nonempty; right; exact Hne).
  split.
  - apply fix_head_valid; [rewrite forallb_rev; exact Hc|].
    intros E. apply Hn. apply (f_equal (@rev ascii)) in E. rewrite rev_involutive in E. exact E.
  - intros Ha. apply fix_head_alnum. rewrite existsb_rev. apply snake_fold_alnum. right. exact Ha.
Qed.

Lemma keywords_valid : forallb valid_ident keywords = true.
Proof. vm_compute. reflexivity. Qed.

Lemma strip_raw_escape k : strip_raw ("r#" ++ k) = Some k.
Proof. reflexivity. Qed.

(** The lower snake case form of a non-empty name of letters, digits and [_] is lexically an
    identifier, possibly with the raw prefix [r#] ... *)
Theorem snake_case_valid s :
  name_chars s = true -> s <> "" -> valid_ident (unraw (to_lower_snake_case s)) = true.
Proof.
  intros H1 H2. unfold to_lower_snake_case, escape_rust_keyword.
  assert (Hne : list_ascii_of_string s <> []) by (destruct s; [congruence|discriminate]).
  destruct (snake_chars_facts _ H1 Hne) as [Hv _].
  set (r := snake_chars (list_ascii_of_string s)) in *.
  destruct (is_rust_keyword (string_of_list_ascii r)).
  - unfold unraw. rewrite strip_raw_escape. unfold valid_ident.
    rewrite list_ascii_of_string_of_list_ascii. exact Hv.
  - unfold unraw. rewrite name_chars_strip_raw by (apply valid_chars_all; exact Hv).
    unfold valid_ident. rewrite list_ascii_of_string_of_list_ascii. exact Hv.
Qed.

(** ... and usable as a Rust identifier, EXCEPT when it is one of the keywords that cannot be
    raw identifiers. *)
Theorem snake_case_rust_ok s :
  name_chars s = true -> has_alnum s = true ->
  rust_ident_ok (to_lower_snake_case s) = true \/
  In (to_lower_snake_case s) ["r#self"; "r#Self"; "r#crate"; "r#super"].
Proof.
  intros H1 H2. unfold to_lower_snake_case, escape_rust_keyword.
  assert (Hne : list_ascii_of_string s <> []).
  { unfold has_alnum in H2. destruct (list_ascii_of_string s); [discriminate|discriminate]. }
  destruct (snake_chars_facts _ H1 Hne) as [Hv Ha]. specialize (Ha H2).
  set (r := snake_chars (list_ascii_of_string s)) in *.
  destruct (is_rust_keyword (string_of_list_ascii r)) eqn:Ek.
  - unfold rust_ident_ok. rewrite strip_raw_escape. unfold valid_ident.
    rewrite list_ascii_of_string_of_list_ascii, Hv, alnum_not_underscore by exact Ha.
    destruct (mem (string_of_list_ascii r) raw_forbidden) eqn:Em; [right|left; reflexivity].
    apply mem_In in Em. cbn [raw_forbidden In] in Em.
    destruct Em as [<-|[<-|[<-|[<-|[]]]]]; cbn; tauto.
  - left. unfold rust_ident_ok. rewrite name_chars_strip_raw by (apply valid_chars_all; exact Hv).
    unfold valid_ident. rewrite list_ascii_of_string_of_list_ascii, Hv, Ek.
    rewrite alnum_not_underscore by exact Ha. reflexivity.
Qed.

Theorem snake_case_raw_refuted :
  exists s, name_chars s = true /\ has_letter s = true /\
            to_lower_snake_case s = "r#self" /\ rust_ident_ok (to_lower_snake_case s) = false.
Proof. exists "Self". vm_compute. repeat split. Qed.

(** Outside the domain: underscores only give the lone underscore (not an identifier). *)
Theorem snake_case_underscore_refuted :
  exists s, name_chars s = true /\ valid_ident s = true /\ to_lower_snake_case s = "_" /\
            rust_ident_ok (to_lower_snake_case s) = false.
Proof. exists "___". vm_compute. repeat split. Qed.

(** ** The terminal name table *)
Lemma tn_fold_chars l : forall st,
  forallb name_char (snd st) = true -> forallb name_char (snd (fold_left tn_step l st)) = true.
Proof.
  induction l as [|c l IH]; intros st Hst; cbn [fold_left]; [exact Hst|].
  apply IH. destruct st as [cap acc]. cbn [snd] in *. unfold tn_step.
  destruct (is_alnum c) eqn:Ea; cbn [snd].
  - cbn [forallb]. rewrite Hst, andb_true_r.
    pose proof (implb_elim _ _ (alnum_name_char c) Ea) as Hc.
    destruct cap; [exact (implb_elim _ _ (to_upper_name_char c) Hc)|exact Hc].
  - rewrite forallb_app, forallb_rev, punct_name_chars. exact Hst.
Qed.

(** Every non-empty terminal text gets a lexically valid name (which may be the lone ["_"]). *)
Theorem terminal_name_valid s : s <> "" -> valid_ident (terminal_name_of s) = true.
Proof.
  intros Hne. unfold valid_ident, terminal_name_of. rewrite list_ascii_of_string_of_list_ascii.
  unfold tn_chars.
  set (l := list_ascii_of_string s).
  assert (Hl : l <> []) by (subst l; destruct s; [congruence|discriminate]).
  pose proof (tn_fold_chars l (true, []) eq_refl) as Hc. rewrite <- forallb_rev in Hc.
  destruct (rev (snd (fold_left tn_step l (true, [])))) as [|x r] eqn:E.
  - destruct l; [congruence|reflexivity].
  - apply fix_head_valid; [exact Hc|discriminate].
Qed.

(** ** [generate_name] keeps validity *)
Lemma digits_name_chars ds : forallb is_digit ds = true -> forallb name_char ds = true.
Proof.
  intros H. apply forallb_forall. intros c Hc.
  apply (implb_elim _ _ (digit_name_char c)). exact (proj1 (forallb_forall _ _) H c Hc).
Qed.

Lemma uint_digits d : forallb is_digit (list_ascii_of_string (NilEmpty.string_of_uint d)) = true.
Proof. induction d as [|d IH|d IH|d IH|d IH|d IH|d IH|d IH|d IH|d IH|d IH]; cbn; auto. Qed.

Lemma dec_digits n : forallb is_digit (list_ascii_of_string (dec n)) = true.
Proof. apply uint_digits. Qed.

Lemma take_digits_prefix r : (take_digits r ++ skipn (length (take_digits r)) r)%list = r.
Proof.
  induction r as [|c r IH]; cbn [take_digits]; [reflexivity|].
  destruct (is_digit c); [|reflexivity]. cbn [length skipn app]. rewrite IH. reflexivity.
Qed.

Lemma split_num_suffix_spec s p ds :
  split_num_suffix s = (p, ds) -> list_ascii_of_string s = (list_ascii_of_string p ++ ds)%list.
Proof.
  unfold split_num_suffix. intros H. inversion H; subst p ds; clear H.
  rewrite list_ascii_of_string_of_list_ascii, <- rev_app_distr, take_digits_prefix.
  symmetry. apply rev_involutive.
Qed.

Lemma take_digits_all r : forallb is_digit (take_digits r) = true.
Proof.
  induction r as [|c r IH]; cbn [take_digits]; [reflexivity|].
  destruct (is_digit c) eqn:E; [|reflexivity]. cbn [forallb]. rewrite E. exact IH.
Qed.

Lemma name_base_valid pref prefix start :
  valid_ident pref = true -> name_base pref = (prefix, start) -> valid_ident prefix = true.
Proof.
  unfold name_base. destruct (split_num_suffix pref) as [p ds] eqn:E. intros Hv Hb.
  destruct ds as [|d ds]; [inversion Hb; subst; exact Hv|]. inversion Hb; subst prefix start.
  pose proof (split_num_suffix_spec _ _ _ E) as Hs. unfold valid_ident in *. rewrite Hs in Hv.
  assert (Hd : forallb is_digit (d :: ds) = true).
  { unfold split_num_suffix in E. inversion E as [[E1 E2]]. rewrite forallb_rev. apply take_digits_all. }
  destruct (list_ascii_of_string p) as [|c r].
  - cbn [app valid_chars] in Hv. cbn [forallb] in Hd. apply andb_true_iff in Hd as [Hd _].
    apply andb_true_iff in Hv as [Hv _].
    pose proof (implb_elim _ _ (alpha_not_digit d) Hv) as Hx. rewrite Hd in Hx. discriminate.
  - cbn [app valid_chars] in *. apply andb_true_iff in Hv as [Hv1 Hv2]. rewrite Hv1.
    rewrite forallb_app in Hv2. apply andb_true_iff in Hv2 as [Hv2 _]. exact Hv2.
Qed.

(** Appending a decimal suffix keeps validity. *)
Lemma candidate_valid prefix n : valid_ident prefix = true -> valid_ident (candidate prefix n) = true.
Proof.
  intros H. unfold valid_ident, candidate. rewrite las_app. apply valid_chars_app; [exact H|].
  apply digits_name_chars. apply dec_digits.
Qed.

Theorem generate_name_preserves_valid excl pref :
  valid_ident pref = true -> valid_ident (generate_name excl pref) = true.
Proof.
  intros Hv. unfold generate_name. destruct (mem pref excl); [|exact Hv].
  destruct (name_base pref) as [prefix start] eqn:Eb. apply candidate_valid.
  exact (name_base_valid _ _ _ Hv Eb).
Qed.

(** ** [generate_terminal_names] *)
Lemma NoDup_snoc {A} (x : A) l : NoDup l -> ~ In x l -> NoDup (l ++ [x])%list.
Proof.
  induction 1 as [|y l Hy Hnd IH]; intros Hx; cbn [app].
  - constructor; [intros []|constructor].
  - constructor.
    + intros Hin. apply in_app_or in Hin as [Hin|[<-|[]]]; [exact (Hy Hin)|].
      apply Hx. left. reflexivity.
    + apply IH. intros Hin. apply Hx. right. exact Hin.
Qed.

Lemma gtn_fold prefs : forall acc,
  NoDup acc -> NoDup (fold_left (fun acc p => (acc ++ [generate_name acc p])%list) prefs acc).
Proof.
  induction prefs as [|p prefs IH]; intros acc Hnd; cbn [fold_left]; [exact Hnd|].
  apply IH. apply NoDup_snoc; [exact Hnd|apply generate_name_fresh].
Qed.

(** The terminal names are pairwise different, whatever the preferred names are. *)
Theorem terminal_names_nodup prefs : NoDup (generate_terminal_names prefs).
Proof. apply gtn_fold. constructor. Qed.

Lemma gtn_fold_length prefs : forall acc,
  length (fold_left (fun acc p => (acc ++ [generate_name acc p])%list) prefs acc) = length acc + length prefs.
Proof.
  induction prefs as [|p prefs IH]; intros acc; cbn [fold_left length]; [lia|].
  rewrite IH, app_length. cbn [length]. lia.
Qed.

Theorem terminal_names_length prefs : length (generate_terminal_names prefs) = length prefs.
Proof. apply gtn_fold_length. Qed.

Lemma gtn_fold_valid prefs : forall acc,
  Forall (fun s => valid_ident s = true) acc -> Forall (fun s => valid_ident s = true) prefs ->
  Forall (fun s => valid_ident s = true) (fold_left (fun acc p => (acc ++ [generate_name acc p])%list) prefs acc).
Proof.
  induction prefs as [|p prefs IH]; intros acc Ha Hp; cbn [fold_left]; [exact Ha|].
  inversion Hp as [|x l Hx Hl]; subst. apply IH; [|exact Hl].
  apply Forall_app. split; [exact Ha|]. constructor; [|constructor].
  apply generate_name_preserves_valid. exact Hx.
Qed.

(** ... and lexically valid when the preferred names are. *)
Theorem terminal_names_valid prefs :
  Forall (fun s => valid_ident s = true) prefs ->
  Forall (fun s => valid_ident s = true) (generate_terminal_names prefs).
Proof. intros H. apply gtn_fold_valid; [constructor|exact H]. Qed.

(** A name whose preferred name is free keeps it (first come, first served). *)
Theorem terminal_names_first p prefs : hd_error (generate_terminal_names (p :: prefs)) = Some p.
Proof.
  unfold generate_terminal_names. cbn [fold_left app].
  change (generate_name [] p) with p.
  assert (H : forall l acc x, hd_error acc = Some x ->
            hd_error (fold_left (fun acc p => (acc ++ [generate_name acc p])%list) l acc) = Some x).
  { induction l as [|q l IH]; intros acc x Hx; cbn [fold_left]; [exact Hx|].
    apply IH. destruct acc; [discriminate|exact Hx]. }
  apply H. reflexivity.
Qed.

(** ** Examples (the doc tests of naming_helper.rs and the unit tests of the generators) *)
Example camel1 : to_upper_camel_case "_prolog_0" = "Prolog0". Proof. vm_compute. reflexivity. Qed.
Example camel2 : to_upper_camel_case "_prolog_0__1_10___20__" = "Prolog0_1_10_20". Proof. vm_compute. reflexivity. Qed.
Example camel3 : to_upper_camel_case "_prolog_0__a" = "Prolog0A". Proof. vm_compute. reflexivity. Qed.
Example camel4 : to_upper_camel_case "prolog_item" = "PrologItem". Proof. vm_compute. reflexivity. Qed.
Example camel5 : to_upper_camel_case "PrologItem" = "PrologItem". Proof. vm_compute. reflexivity. Qed.
Example camel6 : to_upper_camel_case "_a_a_" = "AA". Proof. vm_compute. reflexivity. Qed.
Example camel7 : to_upper_camel_case "r#if" = "If". Proof. vm_compute. reflexivity. Qed.
Example camel8 : to_upper_camel_case "0" = "_0". Proof. vm_compute. reflexivity. Qed.
Example camel9 : to_upper_camel_case "_0" = "_0". Proof. vm_compute. reflexivity. Qed.

Example snake1 : to_lower_snake_case "Prolog0" = "prolog0". Proof. vm_compute. reflexivity. Qed.
Example snake2 : to_lower_snake_case "_prolog_0_" = "_prolog_0_". Proof. vm_compute. reflexivity. Qed.
Example snake3 : to_lower_snake_case "_prolog_0_1__3" = "_prolog_0_1_3". Proof. vm_compute. reflexivity. Qed.
Example snake4 : to_lower_snake_case "_____" = "_". Proof. vm_compute. reflexivity. Qed.
Example snake5 : to_lower_snake_case "calc_lst1_1" = "calc_lst1_1". Proof. vm_compute. reflexivity. Qed.
Example snake6 : to_lower_snake_case "nor_op_23" = "nor_op_23". Proof. vm_compute. reflexivity. Qed.
Example snake7 : to_lower_snake_case "type" = "r#type". Proof. vm_compute. reflexivity. Qed.
Example snake8 : to_lower_snake_case "0" = "_0". Proof. vm_compute. reflexivity. Qed.
Example snake9 : to_lower_snake_case "123ABC" = "_123_a_b_c". Proof. vm_compute. reflexivity. Qed.

Example tn1 : terminal_name_of "\+" = "Plus". Proof. vm_compute. reflexivity. Qed.
Example tn2 : terminal_name_of "while" = "While". Proof. vm_compute. reflexivity. Qed.
Example tn3 : terminal_name_of "[0-9]+" = "LBracket0Minus9RBracketPlus". Proof. vm_compute. reflexivity. Qed.
Example tn4 : terminal_name_of "\\" = "Esc". Proof. vm_compute. reflexivity. Qed.
Example tn5 : terminal_name_of "0x" = "_0x". Proof. vm_compute. reflexivity. Qed.
Example tn6 : terminal_name_of " " = "_". Proof. vm_compute. reflexivity. Qed.
Example tn7 : terminal_name_of "" = "". Proof. vm_compute. reflexivity. Qed.

Example gtn1 : generate_terminal_names ["Plus"; "Plus"; "A1"; "Plus"; "A1"; "Plus0"]
             = ["Plus"; "Plus0"; "A1"; "Plus1"; "A2"; "Plus2"].
Proof. vm_compute. reflexivity. Qed.

(** Non-vacuity of the hypotheses. *)
Example dom1 : name_chars "_prolog_0" = true /\ has_alnum "_prolog_0" = true /\ "_prolog_0" <> "".
Proof. repeat split; discriminate. Qed.
Example dom2 : valid_ident "Plus" = true /\ valid_ident (generate_name ["Plus"] "Plus") = true.
Proof. vm_compute. split; reflexivity. Qed.
Example ok1 : rust_ident_ok "r#type" = true /\ rust_ident_ok "r#self" = false /\
              rust_ident_ok "type" = false /\ rust_ident_ok "_" = false /\ rust_ident_ok "_0" = true.
Proof. vm_compute. repeat split. Qed.

Print Assumptions terminal_names_nodup.
Print Assumptions terminal_names_valid.
Print Assumptions terminal_names_length.
Print Assumptions camel_case_valid.
Print Assumptions camel_case_rust_ok.
Print Assumptions camel_case_keyword_refuted.
Print Assumptions camel_case_empty_refuted.
Print Assumptions snake_case_valid.
Print Assumptions snake_case_rust_ok.
Print Assumptions snake_case_raw_refuted.
Print Assumptions snake_case_underscore_refuted.
Print Assumptions terminal_name_valid.
Print Assumptions generate_name_preserves_valid.
