(** * The comment checks as the harness uses them: over Unicode scalar values
    (regex-syntax excludes the surrogate range D800..DFFF from negated classes, so the regexes
    parol's scanner generator hands to scnr2 are compared with the specification on scalar
    values only).  Thin wrappers around Scanner/CommentSpec.v. *)
From Coq Require Import List NArith Bool Lia.
From Parol Require Import Scanner.Regex Scanner.RegexEquiv Scanner.CommentSpec.
Import ListNotations.

Definition block_check_sv (fuel : nat) (r : regex) (s e : list N) : option (option (list N)) :=
  equiv_regex_dfa_on scalar_values fuel r (block_spec s e).

Definition line_check_sv (fuel : nat) (r : regex) (s : list N) : option (option (list N)) :=
  equiv_regex_dfa_on scalar_values fuel r (line_spec s).

Definition is_scalar (c : N) : Prop := valid_char scalar_values c.

Theorem block_check_sv_sound f r s e : e <> [] ->
  block_check_sv f r s e = Some None ->
  forall x, Forall is_scalar x -> (matches r x <-> is_block_comment s e x).
Proof.
  intros He Hc x Hx. rewrite <- (block_spec_correct s e He x).
  apply (equiv_regex_dfa_on_sound scalar_values f r _ (block_spec_eqb_sound s e)
           (step_uniform_lang _ (block_spec_step_uniform s e)) Hc x Hx).
Qed.

Theorem block_check_sv_witness f r s e w : e <> [] ->
  block_check_sv f r s e = Some (Some w) ->
  Forall is_scalar w /\
  ((matches r w /\ ~ is_block_comment s e w) \/ (~ matches r w /\ is_block_comment s e w)).
Proof.
  intros He Hc. destruct (equiv_regex_dfa_on_witness scalar_values f r _ w Hc) as [Hw Hd].
  split; [exact Hw|].
  destruct (matchb r w) eqn:Em, (dfa_accepts (block_spec s e) w) eqn:Ea; try congruence.
  - left. split; [apply matchb_spec; exact Em|]. rewrite <- (block_spec_correct s e He w). congruence.
  - right. split; [intros Hm; apply matchb_spec in Hm; congruence|].
    apply (block_spec_correct s e He w). exact Ea.
Qed.

Theorem line_check_sv_sound f r s :
  line_check_sv f r s = Some None ->
  forall x, Forall is_scalar x -> (matches r x <-> is_line_comment s x).
Proof.
  intros Hc x Hx. rewrite <- (line_spec_correct s x).
  apply (equiv_regex_dfa_on_sound scalar_values f r _ (line_spec_eqb_sound s)
           (step_uniform_lang _ (line_spec_step_uniform s)) Hc x Hx).
Qed.

Theorem line_check_sv_witness f r s w :
  line_check_sv f r s = Some (Some w) ->
  Forall is_scalar w /\
  ((matches r w /\ ~ is_line_comment s w) \/ (~ matches r w /\ is_line_comment s w)).
Proof.
  intros Hc. destruct (equiv_regex_dfa_on_witness scalar_values f r _ w Hc) as [Hw Hd].
  split; [exact Hw|].
  destruct (matchb r w) eqn:Em, (dfa_accepts (line_spec s) w) eqn:Ea; try congruence.
  - left. split; [apply matchb_spec; exact Em|]. rewrite <- (line_spec_correct s w). congruence.
  - right. split; [intros Hm; apply matchb_spec in Hm; congruence|].
    apply (line_spec_correct s w). exact Ea.
Qed.
