(* drv — evaluates the extracted Coq models / checkers on the cases the Rust harness printed.
   Reads one S-expression per line on stdin; prints one verdict line per case:
     OK <nontrivial:0|1>
     FAIL <reason>
     SKIP <reason>
   Lines that do not start with '(' are ignored (harness diagnostics). *)
open Sexp
open Conv

let c31 = function
  | [act; exp; A "panic"; _] ->
    ignore act; ignore exp; "FAIL implementation panicked"
  | [act; exp; d; ops] ->
    let act' = ns_of_sx act and exp' = ns_of_sx exp in
    let d' = nat_of_int (int_of_sx d) in
    let ops' = Stdlib.List.map (function 0 -> Levenshtein.Keep | 1 -> Levenshtein.Insert | 2 -> Levenshtein.Delete
                                  | 3 -> Levenshtein.Replace | _ -> failwith "op") (ints_of_sx ops) in
    if Levenshtein.lev_check act' exp' d' ops' then
      let nt = act' <> [] && exp' <> [] && act' <> exp' in
      (* informational: does the faithful model give the very same script? *)
      let (md, mops) = LevFaithful.lev act' exp' in
      Printf.sprintf "OK %d %s" (if nt then 1 else 0) (if md = d' && mops = ops' then "same-as-faithful-model" else "other-minimal-script")
    else
      Printf.sprintf "FAIL lev_check rejected (model distance %d)" (int_of_nat (Levenshtein.dist act' exp'))
  | _ -> "FAIL malformed case"

(* grammars: (start (lhs sym ...) ...), sym = terminal t >= 0 | -(a+1) for non-terminal a *)
let sym_of_int i = if i >= 0 then Cfg.T (n_of_int i) else Cfg.NT (n_of_int (-i - 1))
let cfg_of_sx = function
  | L (st :: ps) ->
    { Cfg.start = n_of_int (int_of_sx st);
      prods = Stdlib.List.map (fun p -> match ints_of_sx p with
          | l :: r -> { Cfg.lhs = n_of_int l; rhs = Stdlib.List.map sym_of_int r }
          | [] -> failwith "prod") ps }
  | _ -> failwith "cfg"

let member g w = match Member.member (Member.member_fuel g w) g w with
  | Some b -> b
  | None -> failwith "member: out of fuel (impossible by member_fuel_suffices)"

(* all strings over terminals ts up to length n *)
let rec strings ts n = if n = 0 then [[]] else
    let shorter = strings ts (n - 1) in
    shorter @ Stdlib.List.concat_map (fun s -> if Stdlib.List.length s = n - 1 then Stdlib.List.map (fun t -> t :: s) ts else []) shorter

let cfg_terminals g =
  Stdlib.List.sort_uniq compare (Stdlib.List.concat_map (fun p -> Stdlib.List.filter_map (function Cfg.T t -> Some t | _ -> None) p.Cfg.rhs) g.Cfg.prods)

(* C11 *)
let c11 = function
  | [g; nul; unp; rea; unr; lrc; dll; dlr] ->
    let g' = cfg_of_sx g in
    let panics = WellFormed.nullable_panics g' in
    let fails = ref [] in
    let add k = fails := k :: !fails in
    let set chk name = function
      | A "panic" -> if (name = "nullable" || name = "leftrec") && panics then add "start-symbol-without-production" else add (name ^ "-panic")
      | l -> if not (chk g' (ns_of_sx l)) then add name in
    set WellFormed.nullable_check "nullable" nul;
    set WellFormed.unproductive_check "unproductive" unp;
    set WellFormed.reachable_check "reachable" rea;
    set WellFormed.unreachable_check "unreachable" unr;
    set WellFormed.leftrec_check "leftrec" lrc;
    let dec is_ll name = function
      | A "panic" -> add (name ^ "-panic")
      | L [A "ok"] -> if not (WellFormed.decision_check is_ll g' WellFormed.Ok) then add name
      | L [A "nonproductive"; l] -> if not (WellFormed.decision_check is_ll g' (WellFormed.NonProductive (ns_of_sx l))) then add name
      | L [A "unreachable"; l] -> if not (WellFormed.decision_check is_ll g' (WellFormed.Unreachable (ns_of_sx l))) then add name
      | L [A "leftrec"; l] -> if not (WellFormed.decision_check is_ll g' (WellFormed.LeftRecursive (ns_of_sx l))) then add name
      | _ -> add (name ^ "-othererr") in
    dec true "decision-ll" dll;
    dec false "decision-lr" dlr;
    (match Stdlib.List.sort_uniq compare !fails with
     | [] ->
       let kind = (match WellFormed.check_decision true g' with
           | WellFormed.Ok -> "accepted" | WellFormed.NonProductive _ -> "nonproductive" | WellFormed.Unreachable _ -> "unreachable"
           | WellFormed.LeftRecursive _ -> "leftrec" | WellFormed.ModelError -> "modelerror") in
       let nonempty = function L (_ :: _) -> true | _ -> false in
       let nt = nonempty nul || nonempty unp || nonempty lrc || nonempty unr in
       Printf.sprintf "OK %d %s" (if nt then 1 else 0) kind
     | ks -> Printf.sprintf "FAIL key=%s the real result differs from the defined set / decision" (Stdlib.String.concat "+" ks))
  | _ -> "FAIL malformed case"

(* C05 / C06 *)
let strs_of_sx x = Stdlib.List.map ns_of_sx (list_of_sx x)
let show_strs l = "{" ^ Stdlib.String.concat "," (Stdlib.List.map (fun s -> "[" ^ Stdlib.String.concat " " (Stdlib.List.map (fun t -> string_of_int (int_of_n t)) s) ^ "]") l) ^ "}"
let ff_fuel = nat_of_int 4000
let nts_of g = Stdlib.List.sort_uniq compare (Stdlib.List.map int_of_n (Cfg.nts g))

let c06_first = function
  | [_; _; A "panic"] -> "FAIL key=panic first_k panicked"
  | [g; k; ntsets; prsets; _order] ->
    let g' = cfg_of_sx g and k' = int_of_sx k in
    (* the implementation numbers non-terminals like the harness: index in sorted name order *)
    let claimed = Stdlib.List.mapi (fun i s -> (n_of_int i, strs_of_sx s)) (list_of_sx ntsets) in
    let claimed = Stdlib.List.filter (fun (a, _) -> Stdlib.List.mem (int_of_n a) (nts_of g')) claimed in
    let prs = Stdlib.List.map strs_of_sx (list_of_sx prsets) in
    (match FFCheck.first_check ff_fuel (nat_of_int k') g' claimed, FFCheck.first_prods_check ff_fuel (nat_of_int k') g' prs with
     | Some true, Some true ->
       let recursive = Stdlib.List.exists (fun p -> Stdlib.List.exists (function Cfg.NT _ -> true | _ -> false) p.Cfg.rhs) g'.Cfg.prods in
       Printf.sprintf "OK %d first-k%d" (if k' >= 2 && recursive then 1 else 0) k'
     | None, _ | _, None -> "SKIP reference out of fuel"
     | Some false, _ ->
       let t = (match FirstFollow.first_ref ff_fuel (nat_of_int k') g' with Some t -> t | None -> []) in
       let bad = Stdlib.List.find (fun (a, s) -> Stdlib.List.sort compare s <> Stdlib.List.sort compare (FirstFollow.lookup t a)) claimed in
       Printf.sprintf "FAIL key=first-nt FIRST_%d of non-terminal %d: claimed %s, defined %s" k' (int_of_n (fst bad)) (show_strs (snd bad)) (show_strs (FirstFollow.lookup t (fst bad)))
     | _, Some false -> Printf.sprintf "FAIL key=first-prod FIRST_%d of some production differs from the definition" k')
  | _ -> "FAIL malformed case"

let c06_follow = function
  | [_; _; A "panic"] -> "FAIL key=panic follow_k panicked"
  | [g; k; ntsets; _order] ->
    let g' = cfg_of_sx g and k' = int_of_sx k in
    let claimed = Stdlib.List.mapi (fun i s -> (n_of_int i, strs_of_sx s)) (list_of_sx ntsets) in
    let claimed = Stdlib.List.filter (fun (a, _) -> Stdlib.List.mem (int_of_n a) (nts_of g')) claimed in
    (match FFCheck.follow_check ff_fuel (nat_of_int k') g' claimed with
     | Some true -> Printf.sprintf "OK %d follow-k%d" (if k' >= 2 then 1 else 0) k'
     | None -> "SKIP reference out of fuel"
     | Some false ->
       let wt = (match FirstFollow.first_ref ff_fuel (nat_of_int k') g' with
           | Some ft -> (match FirstFollow.follow_ref ff_fuel (nat_of_int k') g' ft with Some w -> w | None -> [])
           | None -> []) in
       let bad = Stdlib.List.find (fun (a, s) -> Stdlib.List.sort compare s <> Stdlib.List.sort compare (FirstFollow.lookup wt a)) claimed in
       Printf.sprintf "FAIL key=follow FOLLOW_%d of non-terminal %d: claimed %s, defined %s" k' (int_of_n (fst bad)) (show_strs (snd bad)) (show_strs (FirstFollow.lookup wt (fst bad))))
  | _ -> "FAIL malformed case"

let c05 = function
  | [_; _; A "panic"] -> "FAIL key=panic decidable / calculate_lookahead_dfas panicked"
  | [g; kk; rows; all] ->
    let g' = cfg_of_sx g and kk' = int_of_sx kk in
    let claimed = Stdlib.List.map (function
        | L [a; A "none"] -> (n_of_int (int_of_sx a), None)
        | L [a; k] -> (n_of_int (int_of_sx a), Some (nat_of_int (int_of_sx k)))
        | _ -> failwith "row") (list_of_sx rows) in
    let claimed = Stdlib.List.filter (fun (a, _) -> Stdlib.List.mem (int_of_n a) (nts_of g')) claimed in
    (match FFCheck.decide_check ff_fuel (nat_of_int kk') g' claimed with
     | None -> "SKIP reference out of fuel"
     | Some false ->
       let model = (match FirstFollow.decide_ref ff_fuel (nat_of_int kk') g' with Some r -> r | None -> []) in
       let show = Stdlib.List.map (fun (a, r) -> Printf.sprintf "%d:%s" (int_of_n a) (match r with Some k -> string_of_int (int_of_nat k) | None -> "none")) in
       Printf.sprintf "FAIL key=decision per-non-terminal lookahead: claimed %s, defined %s" (Stdlib.String.concat " " (show claimed)) (Stdlib.String.concat " " (show (Stdlib.List.sort compare model)))
     | Some true ->
       (* the overall verdict must agree with the rows: Ok iff no row is none, and every automaton's k
          is the k decided for its non-terminal *)
       let any_none = Stdlib.List.exists (fun (_, r) -> r = None) claimed in
       let maxk = Stdlib.List.fold_left (fun m (_, r) -> match r with Some k -> max m (int_of_nat k) | None -> m) 0 claimed in
       (match all with
        | L (A "ok" :: ks) when not any_none ->
          let bad = Stdlib.List.filter (fun e -> match ints_of_sx e with
              | [a; k] -> (match Stdlib.List.assoc_opt (n_of_int a) claimed with Some (Some k') -> int_of_nat k' <> k | _ -> true)
              | _ -> true) ks in
          if bad = [] then Printf.sprintf "OK %d accept-k%d" (if maxk >= 1 then 1 else 0) maxk
          else Printf.sprintf "FAIL key=automaton-k lookahead automaton of non-terminal %s has a k different from the decided minimal k" (Sexp.to_string (Stdlib.List.hd bad))
        | L [A "err"] when any_none -> "OK 1 reject"
        | _ -> "FAIL key=verdict calculate_lookahead_dfas disagrees with the per-non-terminal decisions"))
  | _ -> "FAIL malformed case"

(* C12 *)
let c12 = function
  | [_; A "panic"] -> "FAIL key=panic augment_grammar panicked"
  | [g; g'] ->
    let g1 = cfg_of_sx g and g2 = cfg_of_sx g' in
    let start_rec = Stdlib.List.exists (fun p -> Stdlib.List.mem (Cfg.NT g1.Cfg.start) p.Cfg.rhs) g1.Cfg.prods in
    let nstart = Stdlib.List.length (Stdlib.List.filter (fun p -> p.Cfg.lhs = g1.Cfg.start) g1.Cfg.prods) in
    let nt = start_rec || nstart >= 2 in
    let tag = if start_rec && nstart = 1 then "recursive-single-start" else if start_rec then "recursive-start" else if nstart >= 2 then "multi-start" else "plain" in
    if LrAugment.augment_check g1 g2 then Printf.sprintf "OK %d %s" (if nt then 1 else 0) tag
    else if not (LrAugment.isolatedb g2) then
      Printf.sprintf "FAIL key=%s start symbol of the augmented grammar is not isolated" (if start_rec && nstart = 1 then "not-isolated-recursive-single-start" else "not-isolated")
    else begin
      (* unexpected shape: search for a distinguishing string *)
      let ts = cfg_terminals g1 @ cfg_terminals g2 |> Stdlib.List.sort_uniq compare in
      let ws = strings ts 5 in
      match Stdlib.List.find_opt (fun w -> member g1 w <> member g2 w) ws with
      | Some w -> Printf.sprintf "FAIL key=language-changed distinguishing string (%s)" (Stdlib.String.concat " " (Stdlib.List.map (fun t -> string_of_int (int_of_n t)) w))
      | None -> "FAIL key=shape augment_check rejected the result shape; no distinguishing string up to length 5 (no-failing-input-found)"
    end
  | _ -> "FAIL malformed case"

(* C08 *)
let dfa_of_sx = function
  | L [p0; k; L ts] ->
    let tr = Stdlib.List.map (fun t -> match ints_of_sx t with
        | [f; c; t'; p] -> { DfaEval.t_from = n_of_int f; t_tok = n_of_int c; t_to = n_of_int t'; t_prod = z_of_int p }
        | _ -> failwith "trans") ts in
    { DfaEval.prod0 = z_of_int (int_of_sx p0); transitions = tr; depth = nat_of_int (int_of_sx k) }
  | _ -> failwith "dfa"

let c08 = function
  | [d; _; A "panic"] -> ignore d; "FAIL key=panic implementation panicked"
  | [d; buf; res] ->
    let d' = dfa_of_sx d in
    let buf' = ns_of_sx buf in
    if not (DfaEval.sortedb d'.DfaEval.transitions && DfaEval.wfd d') then "SKIP automaton not sorted/well-formed"
    else begin
      let k = int_of_nat d'.DfaEval.depth in
      match res with
      | L [A "err"; _] -> if Stdlib.List.length buf' < k then "SKIP short buffer" else "FAIL key=othererr unexpected error kind"
      | _ ->
        let r = (match res with L [A "ok"; p] -> Some (z_of_int (int_of_sx p)) | A "prederr" -> None | _ -> failwith "res") in
        (* non-trivial: the buffer follows the automaton for >= 1 token and then leaves it within depth *)
        let rec firstn n l = if n = 0 then [] else match l with [] -> [] | x :: t -> x :: firstn (n - 1) t in
        let runs n = DfaEval.run d'.DfaEval.transitions (firstn n buf') BinNums.N0 d'.DfaEval.prod0 <> None in
        let nt = ref false in
        for n = 1 to k - 1 do if runs n && not (runs (n + 1)) && Stdlib.List.length buf' > n then nt := true done;
        if DfaEval.eval_check d' buf' r then Printf.sprintf "OK %d %s" (if !nt then 1 else 0) (match r with Some _ -> "predict" | None -> "error")
        else begin
          let m = (match DfaEval.eval d' buf' with DfaEval.Predict p -> Printf.sprintf "predict %d" (int_of_z p) | DfaEval.PredictionError -> "prediction error" | DfaEval.LexerErr -> "lexer error") in
          let old = (match DfaEval.eval_old d' buf', r with DfaEval.Predict p, Some q when p = q -> " (agrees with the pre-fix walk eval_old: an unmatched token was skipped)" | _ -> "") in
          Printf.sprintf "FAIL key=%s eval_check rejected: model says %s%s" (if old <> "" then "skips-unmatched-token" else "mismatch") m old
        end
    end
  | _ -> "FAIL malformed case"

let dispatch (sx : Sexp.t) : string =
  match sx with
  | L (A "lev" :: args) -> c31 args
  | L (A "eval" :: args) -> c08 args
  | L (A "aug" :: args) -> c12 args
  | L (A "wf" :: args) -> c11 args
  | L (A "first" :: args) -> c06_first args
  | L (A "follow" :: args) -> c06_follow args
  | L (A "dec" :: args) -> c05 args
  | _ -> "SKIP unknown case kind"

let () =
  try
    while true do
      let line = input_line stdin in
      if Stdlib.String.length line > 0 && line.[0] = '(' then begin
        let verdict =
          try dispatch (Sexp.parse line)
          with e -> "FAIL driver exception " ^ Printexc.to_string e in
        print_endline verdict
      end
    done
  with End_of_file -> ()
