(** Property C12 — LR augmentation preserves the language and isolates the start symbol.
    Pinned statements only; proofs in Transform/LrAugment.v. *)
From Coq Require Import List NArith.
From Parol Require Import Grammar.Cfg Transform.LrAugment.
Import ListNotations.

(** [augment g s'] models [augment_grammar] (after the "fix:" commit); [s'] is the name
    produced by [generate_name], which is fresh (property C33 / Transform.Names). *)
Theorem C12_augment_lang : forall g s', ~ In s' (nts g) ->
  forall w, lang (augment g s') w <-> lang g w.
Proof. exact augment_lang. Qed.

Theorem C12_augment_isolated : forall g s', ~ In s' (nts g) ->
  length (prods_of (augment g s') (start (augment g s'))) = 1 /\
  forall p, In p (prods (augment g s')) -> ~ In (NT (start (augment g s'))) (rhs p).
Proof. exact augment_isolated. Qed.

(** The checker applied to the real implementation's result. *)
Theorem C12_checker_sound : forall g g',
  augment_check g g' = true ->
  (length (prods_of g' (start g')) = 1 /\ forall p, In p (prods g') -> ~ In (NT (start g')) (rhs p)) /\
  forall w, lang g' w <-> lang g w.
Proof. exact augment_check_sound. Qed.

Theorem C12_model_passes_checker : forall g s', ~ In s' (nts g) -> augment_check g (augment g s') = true.
Proof. exact augment_passes_check. Qed.

(** The function at the pinned commit left a recursive single-production start symbol in place
    (defect D1, repaired by a "fix:" commit): S: A; A: "x" S | "x". *)
Theorem C12_pinned_augment_refuted :
  exists g s', ~ In s' (nts g) /\ isolatedb (augment_old g s') = false.
Proof. exact augment_old_isolated_refuted. Qed.

Example C12_nonvacuous :
  ~ In 2%N (nts d1_grammar) /\ isolatedb (augment d1_grammar 2) = true /\
  augment_check d1_grammar (augment d1_grammar 2) = true.
Proof.
  split; [|vm_compute; split; reflexivity].
  vm_compute. intros H. repeat (destruct H as [H|H]; [discriminate|]). exact H.
Qed.
