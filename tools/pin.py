#!/usr/bin/env python3
"""pin.py <PropId> <import-line> <thm> [<thm> ...]
Prints pinned restatements `Theorem <PropId>_<thm> : <type>. Proof. exact <thm>. Qed.` using the
type Coq prints for each theorem (so the Props file fixes the statement text)."""
import subprocess, sys, re, os, tempfile
pid, imp, names = sys.argv[1], sys.argv[2], sys.argv[3:]
src = imp + "\nSet Printing Width 100.\nSet Printing Depth 1000.\n" + "".join('Check %s.\n' % n for n in names)
d = tempfile.mkdtemp(prefix='pin', dir='/verif/work') if os.path.isdir('/verif/work') else tempfile.mkdtemp()
f = os.path.join(d, 'P.v'); open(f, 'w').write(src)
out = subprocess.run(['coqc', '-Q', '/verif/coq', 'Parol', '-w', 'none', f], stdout=subprocess.PIPE, stderr=subprocess.STDOUT, text=True).stdout
import shutil; shutil.rmtree(d)
chunks = re.split(r'\n(?=[A-Za-z_][A-Za-z0-9_\']*\n\s+: )', '\n' + out)
for ch in chunks:
    ch = ch.strip('\n')
    m = re.match(r"([A-Za-z_][A-Za-z0-9_']*)\n\s+: (.*)", ch, re.S)
    if not m:
        if ch.strip(): sys.stderr.write('?? ' + ch[:200] + '\n')
        continue
    name, ty = m.group(1), m.group(2)
    ty = re.sub(r'\n\s+', '\n  ', ty)
    print('Theorem %s_%s :\n  %s.\nProof. exact %s. Qed.\n' % (pid, name, ty, name))
