//! Shared grammar representation, generators and conversions from/to parol's `Cfg`.
//!
//! Non-terminals are indices into `names`; terminals are token types (5.. = user terminals).
//! S-expression form read by the OCaml driver: `(<start> (<lhs> <sym>*)*)` where a symbol is
//! the terminal number `t >= 0` or `-(a+1)` for non-terminal `a`.
use crate::rng::Rng;
use parol::{Cfg, Pr, Symbol, SymbolAttribute, Terminal};
use std::collections::BTreeMap;

#[derive(Clone, Debug, PartialEq, Eq, Hash, PartialOrd, Ord)]
pub enum Sy {
    T(u16),
    N(usize),
}

#[derive(Clone, Debug, PartialEq, Eq)]
pub struct G {
    pub names: Vec<String>,
    pub start: usize,
    pub prods: Vec<(usize, Vec<Sy>)>,
}

pub fn term_text(t: u16) -> String {
    // terminal number 5+i is written as the letter i
    ((b'a' + (t - 5) as u8) as char).to_string()
}

impl G {
    pub fn sx(&self) -> String {
        let mut s = format!("({}", self.start);
        for (l, r) in &self.prods {
            s.push_str(&format!(" ({}", l));
            for y in r {
                match y {
                    Sy::T(t) => s.push_str(&format!(" {}", t)),
                    Sy::N(a) => s.push_str(&format!(" -{}", a + 1)),
                }
            }
            s.push(')');
        }
        s.push(')');
        s
    }

    /// As `to_cfg`, with AST-control annotations that do not change the language: the j-th non-terminal occurrence is
    /// clipped (`N^`) when bit j % 64 of `mask` is set.
    pub fn to_cfg_annotated(&self, mask: u64) -> Cfg {
        let mut cfg = Cfg::with_start_symbol(&self.names[self.start]);
        let mut j = 0u32;
        for (l, r) in &self.prods {
            let rhs: Vec<Symbol> = r
                .iter()
                .map(|y| match y {
                    Sy::T(t) => Symbol::T(Terminal::t(&term_text(*t), vec![0], SymbolAttribute::None)),
                    Sy::N(a) => {
                        let clip = (mask >> (j % 64)) & 1 == 1;
                        j += 1;
                        Symbol::N(self.names[*a].clone(), if clip { SymbolAttribute::Clipped } else { SymbolAttribute::None }, None, None)
                    }
                })
                .collect();
            cfg = cfg.add_pr(Pr::new(&self.names[*l], rhs));
        }
        cfg
    }

    /// Build parol's `Cfg` directly (BNF level, no annotations).
    pub fn to_cfg(&self) -> Cfg {
        let mut cfg = Cfg::with_start_symbol(&self.names[self.start]);
        for (l, r) in &self.prods {
            let rhs: Vec<Symbol> = r
                .iter()
                .map(|y| match y {
                    Sy::T(t) => Symbol::T(Terminal::t(&term_text(*t), vec![0], SymbolAttribute::None)),
                    Sy::N(a) => Symbol::n(&self.names[*a]),
                })
                .collect();
            cfg = cfg.add_pr(Pr::new(&self.names[*l], rhs));
        }
        cfg
    }

    /// PAR text for the grammar; productions of one non-terminal are grouped (in order of first
    /// appearance, the start symbol first).
    pub fn to_par(&self, lalr: bool) -> String {
        let mut s = format!("%start {}\n", self.names[self.start]);
        if lalr {
            s.push_str("%grammar_type 'lalr(1)'\n");
        }
        s.push_str("%%\n");
        let mut order: Vec<usize> = vec![self.start];
        for (l, _) in &self.prods {
            if !order.contains(l) {
                order.push(*l);
            }
        }
        for a in order {
            let alts: Vec<String> = self
                .prods
                .iter()
                .filter(|(l, _)| *l == a)
                .map(|(_, r)| {
                    r.iter()
                        .map(|y| match y {
                            Sy::T(t) => format!("\"{}\"", term_text(*t)),
                            Sy::N(b) => self.names[*b].clone(),
                        })
                        .collect::<Vec<_>>()
                        .join(" ")
                })
                .collect();
            if alts.is_empty() {
                continue;
            }
            s.push_str(&format!("{}: {};\n", self.names[a], alts.join(" | ")));
        }
        s
    }

    /// Read a parol `Cfg` back. Non-terminals are numbered like parol's
    /// `get_non_terminal_index_function` (sorted names); terminals by the text -> letter rule when
    /// `by_text` (grammars made by this harness) or by parol's terminal index function otherwise.
    pub fn from_cfg(cfg: &Cfg, by_text: bool) -> G {
        let names: Vec<String> = cfg.get_non_terminal_set().into_iter().collect();
        let idx: BTreeMap<&str, usize> = names.iter().enumerate().map(|(i, n)| (n.as_str(), i)).collect();
        let tif = cfg.get_terminal_index_function();
        use parol::grammar::cfg::TerminalIndexFn;
        let prods = cfg
            .pr
            .iter()
            .map(|p| {
                let l = idx[p.get_n_str()];
                let r = p
                    .get_r()
                    .iter()
                    .filter_map(|s| match s {
                        Symbol::N(n, ..) => Some(Sy::N(idx[n.as_str()])),
                        Symbol::T(Terminal::Trm(t, k, _, _, _, _, la)) => {
                            if by_text && t.len() == 1 && t.as_bytes()[0].is_ascii_lowercase() {
                                Some(Sy::T(5 + (t.as_bytes()[0] - b'a') as u16))
                            } else {
                                Some(Sy::T(tif.terminal_index(t, *k, la)))
                            }
                        }
                        _ => None,
                    })
                    .collect();
                (l, r)
            })
            .collect();
        G { start: idx[cfg.st.as_str()], names, prods }
    }

    pub fn nts_used(&self) -> usize {
        self.names.len()
    }

    pub fn prods_of(&self, a: usize) -> Vec<usize> {
        self.prods.iter().enumerate().filter(|(_, (l, _))| *l == a).map(|(i, _)| i).collect()
    }
}

pub fn nt_name(i: usize) -> String {
    // names chosen so that sorted order == index order (parol sorts non-terminal names)
    format!("N{}", (b'A' + i as u8) as char)
}

#[derive(Clone, Debug)]
pub struct Dials {
    pub max_nts: usize,
    pub max_terms: usize,
    pub max_alts: usize,
    pub max_rhs: usize,
    pub eps_pct: usize,
    pub nt_pct: usize,
}

impl Default for Dials {
    fn default() -> Self {
        Dials { max_nts: 5, max_terms: 4, max_alts: 3, max_rhs: 4, eps_pct: 15, nt_pct: 45 }
    }
}

/// Random BNF grammar; every non-terminal 0..n gets >= 1 production unless `holes` (then a
/// non-terminal may be left without productions: unproductive by construction).
pub fn random_bnf(rng: &mut Rng, d: &Dials, holes: bool) -> G {
    let n = rng.range(1, d.max_nts);
    let m = rng.range(1, d.max_terms);
    let names: Vec<String> = (0..n).map(nt_name).collect();
    let mut prods = vec![];
    for a in 0..n {
        if holes && a > 0 && rng.chance(1, 12) {
            continue;
        }
        let alts = rng.range(1, d.max_alts);
        for _ in 0..alts {
            let len = if rng.chance(d.eps_pct, 100) { 0 } else { rng.range(1, d.max_rhs) };
            let rhs: Vec<Sy> = (0..len)
                .map(|_| {
                    if rng.chance(d.nt_pct, 100) {
                        Sy::N(rng.below(n))
                    } else {
                        Sy::T(5 + rng.below(m) as u16)
                    }
                })
                .collect();
            if !prods.contains(&(a, rhs.clone())) {
                prods.push((a, rhs));
            }
        }
    }
    if prods.iter().all(|(l, _)| *l != 0) {
        prods.insert(0, (0, vec![Sy::T(5)]));
    }
    G { names, start: 0, prods }
}

/// A grammar that is productive, reachable and (for `ll`) free of left recursion, made by
/// rejection sampling on top of `random_bnf`, using simple local checks (not parol's).
pub fn random_clean(rng: &mut Rng, d: &Dials, ll: bool) -> G {
    loop {
        let g = random_bnf(rng, d, false);
        if is_clean(&g, ll) {
            return g;
        }
    }
}

pub fn nullable_set(g: &G) -> Vec<bool> {
    let n = g.names.len();
    let mut nul = vec![false; n];
    loop {
        let mut ch = false;
        for (l, r) in &g.prods {
            if !nul[*l] && r.iter().all(|y| matches!(y, Sy::N(a) if nul[*a])) {
                nul[*l] = true;
                ch = true;
            }
        }
        if !ch {
            return nul;
        }
    }
}

pub fn is_clean(g: &G, ll: bool) -> bool {
    let n = g.names.len();
    // productive
    let mut prod = vec![false; n];
    loop {
        let mut ch = false;
        for (l, r) in &g.prods {
            if !prod[*l] && r.iter().all(|y| match y { Sy::T(_) => true, Sy::N(a) => prod[*a] }) {
                prod[*l] = true;
                ch = true;
            }
        }
        if !ch {
            break;
        }
    }
    if prod.iter().any(|p| !p) {
        return false;
    }
    // reachable
    let mut reach = vec![false; n];
    reach[g.start] = true;
    loop {
        let mut ch = false;
        for (l, r) in &g.prods {
            if reach[*l] {
                for y in r {
                    if let Sy::N(a) = y {
                        if !reach[*a] {
                            reach[*a] = true;
                            ch = true;
                        }
                    }
                }
            }
        }
        if !ch {
            break;
        }
    }
    if reach.iter().any(|p| !p) {
        return false;
    }
    if ll {
        let nul = nullable_set(g);
        // left-corner relation closure
        let mut lc = vec![vec![false; n]; n];
        for (l, r) in &g.prods {
            for y in r {
                match y {
                    Sy::T(_) => break,
                    Sy::N(a) => {
                        lc[*l][*a] = true;
                        if !nul[*a] {
                            break;
                        }
                    }
                }
            }
        }
        for k in 0..n {
            for i in 0..n {
                for j in 0..n {
                    if lc[i][k] && lc[k][j] {
                        lc[i][j] = true;
                    }
                }
            }
        }
        if (0..n).any(|i| lc[i][i]) {
            return false;
        }
    }
    true
}

/// Random sentence by random derivation with a budget; `None` if the budget runs out.
pub fn random_sentence(rng: &mut Rng, g: &G, budget: usize) -> Option<Vec<u16>> {
    // minimal derivation heights to steer towards termination
    let n = g.names.len();
    let mut h = vec![usize::MAX; n];
    loop {
        let mut ch = false;
        for (l, r) in &g.prods {
            let mut m = 0usize;
            let mut ok = true;
            for y in r {
                if let Sy::N(a) = y {
                    if h[*a] == usize::MAX {
                        ok = false;
                        break;
                    }
                    m = m.max(h[*a]);
                }
            }
            if ok && m + 1 < h[*l] {
                h[*l] = m + 1;
                ch = true;
            }
        }
        if !ch {
            break;
        }
    }
    if h[g.start] == usize::MAX {
        return None;
    }
    let mut out = vec![];
    let mut stack = vec![Sy::N(g.start)];
    let mut steps = 0usize;
    while let Some(y) = stack.pop() {
        match y {
            Sy::T(t) => out.push(t),
            Sy::N(a) => {
                steps += 1;
                let ps = g.prods_of(a);
                let usable: Vec<usize> = ps
                    .iter()
                    .cloned()
                    .filter(|p| g.prods[*p].1.iter().all(|y| match y { Sy::T(_) => true, Sy::N(b) => h[*b] != usize::MAX }))
                    .collect();
                if usable.is_empty() {
                    return None;
                }
                let p = if steps > budget {
                    // pick the production minimising height
                    *usable
                        .iter()
                        .min_by_key(|p| g.prods[**p].1.iter().map(|y| match y { Sy::T(_) => 0, Sy::N(b) => h[*b] }).max().unwrap_or(0))
                        .unwrap()
                } else {
                    *rng.pick(&usable)
                };
                if steps > budget * 20 || out.len() > 60 {
                    return None;
                }
                for y in g.prods[p].1.iter().rev() {
                    stack.push(y.clone());
                }
            }
        }
    }
    Some(out)
}

pub fn mutate(rng: &mut Rng, s: &[u16], nterm: usize) -> Vec<u16> {
    let mut v = s.to_vec();
    let edits = rng.range(1, 2);
    for _ in 0..edits {
        let foreign = rng.chance(1, 6);
        let newt = if foreign { 5 + nterm as u16 + rng.below(2) as u16 } else { 5 + rng.below(nterm.max(1)) as u16 };
        match rng.below(4) {
            0 if !v.is_empty() => {
                let i = rng.below(v.len());
                v.remove(i);
            }
            1 => {
                let i = rng.below(v.len() + 1);
                v.insert(i, newt);
            }
            2 if !v.is_empty() => {
                let i = rng.below(v.len());
                v[i] = newt;
            }
            3 if v.len() >= 2 => {
                let i = rng.below(v.len() - 1);
                v.swap(i, i + 1);
            }
            _ => v.push(newt),
        }
    }
    v
}

pub fn max_term(g: &G) -> usize {
    g.prods
        .iter()
        .flat_map(|(_, r)| r.iter())
        .filter_map(|y| if let Sy::T(t) = y { Some(*t as usize - 4) } else { None })
        .max()
        .unwrap_or(1)
}

/// Enumerate all "tiny" BNF grammars: <= 2 non-terminals, <= 2 terminals, each non-terminal with
/// 1..=2 alternatives, right-hand sides of length <= 2. `index` selects one (mixed radix);
/// returns None past the end.
pub fn tiny(index: usize) -> Option<G> {
    // symbols: T5, T6, N0, N1 ; rhs: all strings of length 0..=2 over 4 symbols = 1 + 4 + 16 = 21
    let syms = [Sy::T(5), Sy::T(6), Sy::N(0), Sy::N(1)];
    let mut rhss: Vec<Vec<Sy>> = vec![vec![]];
    for a in &syms {
        rhss.push(vec![a.clone()]);
    }
    for a in &syms {
        for b in &syms {
            rhss.push(vec![a.clone(), b.clone()]);
        }
    }
    let r = rhss.len(); // 21
    // alternatives of one non-terminal: one rhs (r choices) or an ordered pair of different rhs with i<j
    let pairs = r * (r - 1) / 2;
    let per_nt = r + pairs; // 231
    let total = per_nt * (per_nt + 1); // N1 may be absent (0) or have per_nt forms
    if index >= total {
        return None;
    }
    let a0 = index % per_nt;
    let a1 = index / per_nt; // 0 = absent
    let alts = |code: usize| -> Vec<Vec<Sy>> {
        if code < r {
            vec![rhss[code].clone()]
        } else {
            let mut c = code - r;
            let mut i = 0;
            while c >= r - 1 - i {
                c -= r - 1 - i;
                i += 1;
            }
            vec![rhss[i].clone(), rhss[i + 1 + c].clone()]
        }
    };
    let mut prods = vec![];
    for x in alts(a0) {
        prods.push((0usize, x));
    }
    let mut names = vec![nt_name(0)];
    let uses_n1 = prods.iter().any(|(_, x): &(usize, Vec<Sy>)| x.contains(&Sy::N(1)));
    if a1 > 0 {
        names.push(nt_name(1));
        for x in alts(a1 - 1) {
            prods.push((1usize, x));
        }
    } else if uses_n1 {
        names.push(nt_name(1)); // N1 used but has no production
    }
    Some(G { names, start: 0, prods })
}

pub const TINY_TOTAL: usize = 231 * 232;
