(** Property C21 — Generated parser source and export model encode the analysis faithfully.
    The encoding itself is decided per instance by translation validation: on every run the tables are read back
    from the GENERATED PARSER SOURCE TEXT (syn) and from the JSON the real `parol export` tool writes; they must be
    equal field by field, and the SOURCE tables must pass the proved checkers below against the grammar the
    generator worked on. The theorems pinned here are what a passed checker means, for ALL inputs of the parser:
    - la_dfa_check_sound / la_dfa_check_eval: an automaton that passes la_dfa_check against the lookahead-set family
      (computed by the verified FIRST_k/FOLLOW_k reference) predicts production p on a lookahead string exactly when
      the string is in p's set — "the same parser as the analysis results".
    - ll_no_panic: tables that pass tables_ok never drive the LL(k) runtime to an out-of-range index or unwrap
      ("all indices in range"), whatever the input.
    - lr_safe_check_sound / lr_no_panic / lr_no_internal_error: the same for a validated LALR(1) table. *)
From Coq Require Import List NArith ZArith.
From Parol Require Import Grammar.Cfg Runtime.DfaEval Analysis.LaTrie Runtime.LLParser Runtime.LLSound.
Import ListNotations.

Theorem C21_la_dfa_check_sound :
  forall (d : dfa) (fam : family) (alphabet : list N),
  la_dfa_check d fam alphabet = true ->
  forall (u : list N) (p : Z), accepts d u p <-> In u (strings_of fam p).
Proof. exact la_dfa_check_sound. Qed.

Theorem C21_la_dfa_check_eval :
  forall (d : dfa) (fam : family) (alphabet buf : list N) (p : Z),
  la_dfa_check d fam alphabet = true ->
  eval d buf = Predict p ->
  exists n : nat, n <= depth d /\ In (firstn n buf) (strings_of fam p).
Proof. exact la_dfa_check_eval. Qed.

Theorem C21_la_depth_check_spec :
  forall (d : dfa) (fam : family),
  la_depth_check d fam = true ->
  (forall (p : Z) (u : list N), In u (strings_of fam p) -> length u <= depth d) /\
  fam_max_len fam = depth d.
Proof. exact la_depth_check_spec. Qed.

Theorem C21_ll_no_panic :
  forall (fuel : nat) (tb : ll_tables) (opts : options) (toks : list N) (site : nat),
  tables_ok tb = true ->
  forallb (fun t : N => (t <? tb_nterms tb)%N) toks = true ->
  ll_run fuel tb opts toks <> Panic site.
Proof. exact ll_no_panic. Qed.

Theorem C21_ll_sound :
  forall (fuel : nat) (tb : ll_tables) (opts : options) (toks : list N)
  (acts : list (N * list sym)) (evs : list event),
  tables_ok tb = true ->
  ll_run fuel tb opts toks = Accepted acts evs -> lang (grammar_of tb) toks.
Proof. exact ll_sound. Qed.

(* ---------------------------------------------------------------- LR *)
From Parol Require Import Runtime.LRParser Tables.LRValidate.

Theorem C21_lr_safe_check_sound :
  forall (g : cfg) (tb : lr_table) (ann : annotation) (fuel : nat) 
  (toks reds : list N) (forest : list tree),
  lr_safe_check g tb ann = true ->
  ~ In 0%N toks ->
  lr_run fuel tb toks = Accepted reds forest ->
  exists t : tree,
  forest = [t] /\
  lang g toks /\
  tree_ok g t /\
  yield t = toks /\ root_sym t = NT (start g) /\ prod_numbers_ok g (postorder t) reds.
Proof. exact lr_safe_check_sound. Qed.

Theorem C21_lr_no_panic :
  forall (g : cfg) (tb : lr_table) (ann : annotation) (fuel : nat) 
  (toks : list N) (site : nat),
  lr_safe_check g tb ann = true ->
  Forall (fun t : N => (t < lr_nterm tb)%N) toks -> lr_run fuel tb toks <> Panic site.
Proof. exact lr_no_panic. Qed.

Theorem C21_lr_no_internal_error :
  forall (g : cfg) (tb : lr_table) (ann : annotation) (fuel : nat) 
  (toks : list N) (site : nat),
  lr_safe_check g tb ann = true -> lr_run fuel tb toks <> InternalErr site.
Proof. exact lr_no_internal_error. Qed.

